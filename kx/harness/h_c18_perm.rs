// C18 plaintext permutation kernels (lifted by name from simple_evaluator.rs)
use crate::evaluator::*;

// @harness c18_inverse_perm_4 | C18 | bounded | execute_inverse_permutation on length 4, all u64 entries: Ok => res[v[i]] == i and entries in range; an out-of-range entry => Err; never out of bounds
#[kani::proof]
#[kani::unwind(6)]
fn c18_inverse_perm_4() {
    let v: [u64; 4] = kani::any();
    let in_range = v.iter().all(|x| *x < 4);
    let r = execute_inverse_permutation(v.to_vec());
    assert!(r.is_ok() == in_range);
    if let Ok(res) = r {
        assert!(res.len() == 4);
        let distinct = v[0] != v[1] && v[0] != v[2] && v[0] != v[3] && v[1] != v[2] && v[1] != v[3] && v[2] != v[3];
        if distinct {
            let i: usize = kani::any();
            kani::assume(i < 4);
            assert!(res[v[i] as usize] == i as u64);           // inverse
            let j: usize = kani::any();
            kani::assume(j < 4);
            assert!(v[res[j] as usize] == j as u64);           // applying then inverting restores the index
        }
    }
    kani::cover!(true);
}
