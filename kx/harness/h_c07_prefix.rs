// C07 prefix-sum kernels of inline/data_structures.rs (VERBATIM) under the free-monoid interval abstraction:
// item i is the interval (i, i+1); combine((a,b),(c,d)) REQUIRES b == c (adjacent, in order) and returns (a,d).
// A result (0, i+1) at position i reached only through adjacent in-order combines is correct for EVERY associative operation.
use crate::errors::Result;
use crate::inline::data_structures::*;
use crate::inline::inline_common::*;

struct Intervals { bad: bool, calls: u32 }
impl CombineOp<(u8, u8)> for Intervals {
    fn combine(&mut self, a: (u8, u8), b: (u8, u8)) -> Result<(u8, u8)> {
        if a.1 != b.0 { self.bad = true; }
        self.calls += 1;
        Ok((a.0, b.1))
    }
}
fn items(n: usize) -> Vec<(u8, u8)> { (0..n).map(|i| (i as u8, i as u8 + 1)).collect() }

fn check_prefix(alg: PrefixSumAlgorithm<(u8, u8)>, n: usize) {
    let mut op = Intervals { bad: false, calls: 0 };
    let r = alg(&items(n), &mut op).unwrap();
    assert!(!op.bad);
    assert!(r.len() == n);
    for i in 0..n { assert!(r[i] == (0, i as u8 + 1)); }
}

macro_rules! prefix {
    ($name:ident, $alg:expr, $n:expr, $unw:expr) => {
        #[kani::proof]
        #[kani::unwind($unw)]
        fn $name() { check_prefix($alg, $n); kani::cover!(true); }
    };
}
// lengths are concrete (the data abstraction is already complete); each harness covers one length
// @harness c07_ba_0 | C07 | bounded | binary ascent, length 0
prefix!(c07_ba_0, prefix_sums_binary_ascent, 0, 4);
// @harness c07_ba_1 | C07 | bounded | binary ascent, length 1
prefix!(c07_ba_1, prefix_sums_binary_ascent, 1, 4);
// @harness c07_ba_5 | C07 C01 | bounded | binary ascent, length 5
prefix!(c07_ba_5, prefix_sums_binary_ascent, 5, 8);
// @harness c07_ba_8 | C07 | bounded | binary ascent, length 8
prefix!(c07_ba_8, prefix_sums_binary_ascent, 8, 11);
// @harness c07_sq_1 | C07 | bounded | sqrt trick, length 1
prefix!(c07_sq_1, prefix_sums_sqrt_trick, 1, 4);
// @harness c07_sq_7 | C07 C01 | bounded | sqrt trick, length 7
prefix!(c07_sq_7, prefix_sums_sqrt_trick, 7, 10);
// @harness c07_sq_15 | C07 | bounded | sqrt trick, length 15 (largest length routed to it)
prefix!(c07_sq_15, prefix_sums_sqrt_trick, 15, 18);
// @harness c07_st_1 | C07 | bounded | segment tree, length 1
prefix!(c07_st_1, prefix_sums_segment_tree, 1, 4);
// @harness c07_st_2 | C07 | bounded | segment tree, length 2
prefix!(c07_st_2, prefix_sums_segment_tree, 2, 5);
// @harness c07_st_3 | C07 C01 | bounded | segment tree, length 3
prefix!(c07_st_3, prefix_sums_segment_tree, 3, 6);
// @harness c07_st_4 | C07 | bounded | segment tree, length 4
prefix!(c07_st_4, prefix_sums_segment_tree, 4, 7);
// @harness c07_st_6 | C07 | bounded | segment tree, length 6
prefix!(c07_st_6, prefix_sums_segment_tree, 6, 9);
// @harness c07_st_16 | C07 | bounded | segment tree, length 16 (smallest length routed to it)
prefix!(c07_st_16, prefix_sums_segment_tree, 16, 19);
// @harness c07_st_17 | C07 | bounded | segment tree, length 17
prefix!(c07_st_17, prefix_sums_segment_tree, 17, 20);

// @harness c07_logsum_7 | C07 | bounded | log_depth_sum, length 7: result is the whole interval, combines adjacent and in order
#[kani::proof]
#[kani::unwind(10)]
fn c07_logsum_7() {
    let mut op = Intervals { bad: false, calls: 0 };
    let r = log_depth_sum(&items(7), &mut op).unwrap();
    assert!(!op.bad && r == (0, 7) && op.calls == 6);
    let mut op = Intervals { bad: false, calls: 0 };
    assert!(log_depth_sum(&items(0), &mut op).is_err());
    kani::cover!(true);
}

// @harness c07_pick | C07 | complete | pick_prefix_sum_algorithm: every length and level returns one of the three algorithms (sqrt below 16, segment tree from 16, binary ascent for Extreme)
#[kani::proof]
fn c07_pick() {
    let n: u64 = kani::any();
    let f = pick_prefix_sum_algorithm::<(u8, u8)>(n, DepthOptimizationLevel::Default);
    let want: PrefixSumAlgorithm<(u8, u8)> = if n < 16 { prefix_sums_sqrt_trick } else { prefix_sums_segment_tree };
    assert!(f as usize == want as usize);
    let g = pick_prefix_sum_algorithm::<(u8, u8)>(n, DepthOptimizationLevel::Extreme);
    let wb: PrefixSumAlgorithm<(u8, u8)> = prefix_sums_binary_ascent;
    assert!(g as usize == wb as usize);
    kani::cover!(true);
}
