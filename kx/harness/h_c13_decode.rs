// C13 decoder contracts: vec_u64_from_bytes / vec_u128_from_bytes against one spec (little-endian value, sign- or zero-extended).
// Contract style: assume(pre); r = real_fn(x); assert(post).  Element bytes are fully symbolic; scalar type and element count are fixed per harness.
use crate::bytes::*;
use crate::data_types::*;

// spec: value of `w` little-endian bytes, extended to 128 bits according to signedness
fn le_extend_u128(b: &[u8], w: usize, signed: bool) -> u128 {
    let mut v: u128 = 0;
    let mut i = 0;
    while i < w {
        v |= (b[i] as u128) << (8 * i);
        i += 1;
    }
    if signed && w < 16 && ((v >> (8 * w - 1)) & 1) == 1 { v |= u128::MAX << (8 * w); }
    v
}

macro_rules! dec128 {
    ($name:ident, $st:expr, $w:expr) => {
        #[kani::proof]
        #[kani::unwind(34)]
        fn $name() {
            let b: [u8; 2 * $w] = kani::any();
            let v = vec_u128_from_bytes(&b, $st).unwrap();
            assert!(v.len() == 2);
            assert!(v[0] == le_extend_u128(&b[..$w], $w, $st.is_signed()));
            assert!(v[1] == le_extend_u128(&b[$w..], $w, $st.is_signed()));
            kani::cover!(true);
        }
    };
}
macro_rules! dec64 {
    ($name:ident, $st:expr, $w:expr) => {
        #[kani::proof]
        #[kani::unwind(18)]
        fn $name() {
            let b: [u8; 2 * $w] = kani::any();
            let v = vec_u64_from_bytes(&b, $st).unwrap();
            assert!(v.len() == 2);
            assert!(v[0] == le_extend_u128(&b[..$w], $w, $st.is_signed()) as u64);
            assert!(v[1] == le_extend_u128(&b[$w..], $w, $st.is_signed()) as u64);
            kani::cover!(true);
        }
    };
}
// @harness c13_dec128_u8 | C13 | bounded | 2 elements, all byte patterns (complete per element: inner loop bounded by the element width)
dec128!(c13_dec128_u8, UINT8, 1);
// @harness c13_dec128_i8 | C13 | bounded | 2 elements, all byte patterns
dec128!(c13_dec128_i8, INT8, 1);
// @harness c13_dec128_i16 | C13 | bounded | 2 elements, all byte patterns
dec128!(c13_dec128_i16, INT16, 2);
// @harness c13_dec128_u32 | C13 | bounded | 2 elements, all byte patterns
dec128!(c13_dec128_u32, UINT32, 4);
// @harness c13_dec128_i32 | C13 | bounded | 2 elements, all byte patterns
dec128!(c13_dec128_i32, INT32, 4);
// @harness c13_dec128_i64 | C13 | bounded | 2 elements, all byte patterns
dec128!(c13_dec128_i64, INT64, 8);
// @harness c13_dec128_u128 | C13 | bounded | 2 elements, all byte patterns
dec128!(c13_dec128_u128, UINT128, 16);
// @harness c13_dec128_i128 | C13 | bounded | 2 elements, all byte patterns
dec128!(c13_dec128_i128, INT128, 16);
// @harness c13_dec64_i8 | C13 | bounded | 2 elements, all byte patterns
dec64!(c13_dec64_i8, INT8, 1);
// @harness c13_dec64_u16 | C13 | bounded | 2 elements, all byte patterns
dec64!(c13_dec64_u16, UINT16, 2);
// @harness c13_dec64_i16 | C13 | bounded | 2 elements, all byte patterns
dec64!(c13_dec64_i16, INT16, 2);
// @harness c13_dec64_i32 | C13 | bounded | 2 elements, all byte patterns
dec64!(c13_dec64_i32, INT32, 4);
// @harness c13_dec64_u64 | C13 | bounded | 2 elements, all byte patterns
dec64!(c13_dec64_u64, UINT64, 8);
// @harness c13_dec64_i64 | C13 | bounded | 2 elements, all byte patterns
dec64!(c13_dec64_i64, INT64, 8);

// @harness c13_dec_bits | C13 | bounded | BIT: 2 bytes -> 16 bits, LSB first (byte count fixed to 2)
#[kani::proof]
#[kani::unwind(18)]
fn c13_dec_bits() {
    let b: [u8; 2] = kani::any();
    let v = vec_u64_from_bytes(&b, BIT).unwrap();
    assert!(v.len() == 16);
    let i: usize = kani::any();
    kani::assume(i < 16);
    assert!(v[i] == ((b[i / 8] >> (i % 8)) & 1) as u64);
    let v2 = vec_u128_from_bytes(&b, BIT).unwrap();
    assert!(v2.len() == 16 && v2[i] == v[i] as u128);
    kani::cover!(true);
}
