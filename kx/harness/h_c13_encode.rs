// C13 encoder contracts: vec_to_bytes / vec_u64_to_bytes produce the little-endian bytes of x mod 2^w; as_u64/as_u128 are the `as` casts.
use crate::bytes::*;
use crate::data_types::*;

macro_rules! enc128 {
    ($name:ident, $t:ty, $st:expr, $w:expr) => {
        #[kani::proof]
        #[kani::unwind(20)]
        fn $name() {
            let x: $t = kani::any();
            let bytes = vec_to_bytes(&[x], $st).unwrap();
            assert!(bytes.len() == $w);
            let full = (x as u128).to_le_bytes();      // `as u128` sign-extends signed sources: x mod 2^128
            let i: usize = kani::any();
            kani::assume(i < $w);
            assert!(bytes[i] == full[i]);               // little-endian bytes of x mod 2^(8w)
            kani::cover!(true);
        }
    };
}
// @harness c13_enc_i8_as_i8 | C13 | complete | one element, all values of the source integer type (loops bounded by the element width)
enc128!(c13_enc_i8_as_i8, i8, INT8, 1);
// @harness c13_enc_i16_as_i16 | C13 | complete | one element, all values
enc128!(c13_enc_i16_as_i16, i16, INT16, 2);
// @harness c13_enc_i32_as_i32 | C13 | complete | one element, all values
enc128!(c13_enc_i32_as_i32, i32, INT32, 4);
// @harness c13_enc_i64_as_i64 | C13 | complete | one element, all values
enc128!(c13_enc_i64_as_i64, i64, INT64, 8);
// @harness c13_enc_i128_as_i128 | C13 | complete | one element, all values
enc128!(c13_enc_i128_as_i128, i128, INT128, 16);
// @harness c13_enc_u64_as_u64 | C13 | complete | one element, all values
enc128!(c13_enc_u64_as_u64, u64, UINT64, 8);
// @harness c13_enc_u128_as_u128 | C13 | complete | one element, all values
enc128!(c13_enc_u128_as_u128, u128, UINT128, 16);
// @harness c13_enc_i64_as_i16 | C13 | complete | wider source than the type: value reduced modulo 2^16
enc128!(c13_enc_i64_as_i16, i64, INT16, 2);
// @harness c13_enc_i8_as_i64 | C13 | complete | narrower signed source: sign extended to the type width
enc128!(c13_enc_i8_as_i64, i8, INT64, 8);
// @harness c13_enc_i32_as_u128 | C13 | complete | signed source into an unsigned 128-bit type
enc128!(c13_enc_i32_as_u128, i32, UINT128, 16);

// @harness c13_enc64_i32_as_i32 | C13 | complete | vec_u64_to_bytes, one element, all values
#[kani::proof]
#[kani::unwind(12)]
fn c13_enc64_i32_as_i32() {
    let x: i32 = kani::any();
    let bytes = vec_u64_to_bytes(&[x], INT32).unwrap();
    assert!(bytes.len() == 4);
    let full = (x as u64).to_le_bytes();
    let i: usize = kani::any();
    kani::assume(i < 4);
    assert!(bytes[i] == full[i]);
    kani::cover!(true);
}

// @harness c13_enc_bits | C13 | bounded | BIT: 9 bits -> 2 bytes, LSB first, padding bits zero, non-bits rejected (length fixed to 9)
#[kani::proof]
#[kani::unwind(12)]
fn c13_enc_bits() {
    let x: [u8; 9] = kani::any();
    let r = vec_to_bytes(&x, BIT);
    let all_bits = x.iter().all(|b| *b <= 1);
    assert!(r.is_ok() == all_bits);
    if let Ok(bytes) = r {
        assert!(bytes.len() == 2);
        let i: usize = kani::any();
        kani::assume(i < 16);
        let want = if i < 9 { x[i] } else { 0 };
        assert!((bytes[i / 8] >> (i % 8)) & 1 == want);
    }
    kani::cover!(true);
}

// @harness c13_as_casts | C13 | complete | vec_as_u64 / vec_as_u128 on one element equal the `as` casts for i8, i64, u64, i128 sources
#[kani::proof]
#[kani::unwind(4)]
fn c13_as_casts() {
    let a: i8 = kani::any();
    assert!(vec_as_u64(&[a]).unwrap()[0] == a as u64);
    assert!(vec_as_u128(&[a]).unwrap()[0] == a as u128);
    let b: i64 = kani::any();
    assert!(vec_as_u64(&[b]).unwrap()[0] == b as u64);
    assert!(vec_as_u128(&[b]).unwrap()[0] == b as u128);
    let c: u64 = kani::any();
    assert!(vec_as_u128(&[c]).unwrap()[0] == c as u128);
    let d: i128 = kani::any();
    assert!(vec_as_u128(&[d]).unwrap()[0] == d as u128);
    kani::cover!(true);
}
