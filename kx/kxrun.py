"""Run Kani harnesses of the mini-crate engine (km).  Each harness is a contract on one real function
(assume pre; call; assert post) with a stated completeness label; results are parsed per harness."""
import json
import os
import re
import subprocess
import sys
import time

HERE = os.path.dirname(os.path.abspath(__file__))
ROOT = os.path.dirname(HERE)
sys.path.insert(0, HERE)
sys.path.insert(0, os.path.join(ROOT, "vx"))
import kxgen  # noqa: E402
from rsscan import LostAnchor  # noqa: E402

# real functions each harness family puts under contract (file, fn)
TARGETS = [
    (r"^c13_dec128|^c13_dec_bits|^c13_dec_len", [("ciphercore-base/src/bytes.rs", "vec_u128_from_bytes")]),
    (r"^c13_dec64|^c13_dec_bits", [("ciphercore-base/src/bytes.rs", "vec_u64_from_bytes")]),
    (r"^c13_enc64", [("ciphercore-base/src/bytes.rs", "vec_u64_to_bytes"), ("ciphercore-base/src/bytes.rs", "vec_as_u64"), ("ciphercore-base/src/bytes.rs", "as_u64")]),
    (r"^c13_enc_", [("ciphercore-base/src/bytes.rs", "vec_to_bytes"), ("ciphercore-base/src/bytes.rs", "vec_as_u128"), ("ciphercore-base/src/bytes.rs", "as_u128")]),
    (r"^c13_as_casts", [("ciphercore-base/src/bytes.rs", "vec_as_u64"), ("ciphercore-base/src/bytes.rs", "vec_as_u128"), ("ciphercore-base/src/bytes.rs", "as_u64"), ("ciphercore-base/src/bytes.rs", "as_u128")]),
    (r"^c07_ba", [("ciphercore-base/src/inline/data_structures.rs", "prefix_sums_binary_ascent")]),
    (r"^c07_sq", [("ciphercore-base/src/inline/data_structures.rs", "prefix_sums_sqrt_trick")]),
    (r"^c07_st", [("ciphercore-base/src/inline/data_structures.rs", "prefix_sums_segment_tree")]),
    (r"^c07_logsum", [("ciphercore-base/src/inline/data_structures.rs", "log_depth_sum")]),
    (r"^c07_pick", [("ciphercore-base/src/inline/inline_common.rs", "pick_prefix_sum_algorithm")]),
    (r"^c18_inverse", [("ciphercore-base/src/evaluators/simple_evaluator.rs", "execute_inverse_permutation")]),
    (r"^c09_slice|^c10_slice", [("ciphercore-base/src/slices.rs", "get_slice_shape"), ("ciphercore-base/src/slices.rs", "slice_index")]),
    (r"^c15_", [("ciphercore-base/src/random.rs", "generate_u32_in_range")]),
]


def targets_of(h):
    out = []
    for pat, fns in TARGETS:
        if re.search(pat, h):
            out.extend(fns)
    return out


META_RE = re.compile(r"^// @harness\s+(\w+)\s*\|\s*([C0-9 ]+?)\s*\|\s*(complete|bounded)\s*\|\s*(.*)$")


def harness_meta():
    metas = {}
    hd = os.path.join(HERE, "harness")
    for f in sorted(os.listdir(hd)):
        if not f.endswith(".rs"):
            continue
        for ln, l in enumerate(open(os.path.join(hd, f)).read().splitlines(), 1):
            m = META_RE.match(l.strip())
            if m:
                metas[m.group(1)] = dict(name=m.group(1), props=m.group(2).split(), complete=m.group(3) == "complete", bound=m.group(4), file="kx/harness/" + f, line=ln)
    return metas


def concrete_playback(crate, env, mod, h):
    """Kani counterexample -> concrete values -> native run of the REAL (verbatim) code in the mini crate."""
    full = (mod + "::" + h) if mod else h
    try:
        p = subprocess.run(["cargo", "kani", "--harness", full, "--exact", "-Z", "concrete-playback", "--concrete-playback=print"], cwd=crate, env=env, capture_output=True, text=True, timeout=600)
        out = p.stdout
        m = re.search(r"```\n([\s\S]*?#\[test\][\s\S]*?)```", out)
        if not m:
            return dict(found=False, note="kani produced no concrete playback")
        test = m.group(1)
        tname = re.search(r"fn (kani_concrete_playback_\w+)", test).group(1)
        vals = re.findall(r"// (-?\d+[^\n]*)\n\s*vec!\[([^\]]*)\]", test)
        # append the generated test to the harness module and run it natively (cargo kani playback)
        hf = os.path.join(crate, "src", mod + ".rs")
        with open(hf, "a") as f:
            f.write("\n" + test + "\n")
        q = subprocess.run(["cargo", "kani", "playback", "-Z", "concrete-playback", "--", tname], cwd=crate, env=env, capture_output=True, text=True, timeout=600)
        fails = ("test result: FAILED" in q.stdout) or ("panicked" in (q.stdout + q.stderr))
        return dict(found=True, routine="kani concrete playback", input=dict(symbolic_values=[dict(value=v.strip(), bytes="[" + b.strip() + "]") for v, b in vals][:24]),
                    observed="native run of the verbatim function violates the harness postcondition" if fails else "native run did not fail",
                    native_run_fails=fails, replay_cmd=f"cd {crate} && cargo kani playback -Z concrete-playback -- {tname}; test $? -eq 0", test=test[:3000])
    except Exception as ex:  # noqa: BLE001
        return dict(found=False, note=f"concrete playback failed: {ex}")


def run_units(units, outdir, tier, seed):
    """units: checks.json entries with engine km: {harnesses:[...], timeout}.  Returns result dicts (one per harness)."""
    metas = harness_meta()
    crate = os.path.join(ROOT, ".build", "km", "crate")
    os.makedirs(crate, exist_ok=True)
    results = []
    log = {}
    hs = [os.path.join(HERE, "harness", f) for f in sorted(os.listdir(os.path.join(HERE, "harness"))) if f.endswith(".rs")]
    try:
        kxgen.build(crate, hs, log)
    except LostAnchor as e:
        return [dict(unit="km:" + ",".join(u.get("harness", "?") for u in units), engine="km", status="undecided", errors=[], tool_errors=[dict(message=f"LOST-ANCHOR: {e}")], functions=[], properties=[])]
    wanted = []
    for u in units:
        wanted.extend(u["harnesses"] if "harnesses" in u else [u["harness"]])
    env = dict(os.environ, CARGO_NET_OFFLINE="true", CARGO_TARGET_DIR=os.path.join(ROOT, ".build", "km", "target"))
    timeout = max(u.get("timeout", 300) for u in units)

    def run_one(h):
        t0 = time.time()
        cmd = ["cargo", "kani", "--harness", h, "--exact", "--output-format", "regular"]
        # harness full name is <mod>::<fn>; --exact needs it: resolve from meta file
        mod = os.path.splitext(os.path.basename(metas[h]["file"]))[0] if h in metas else None
        cmd = ["cargo", "kani", "--harness", (mod + "::" + h) if mod else h, "--exact"]
        try:
            p = subprocess.run(cmd, cwd=crate, env=env, capture_output=True, text=True, timeout=timeout)
            out = p.stdout + "\n" + p.stderr
            to = False
        except subprocess.TimeoutExpired as e:
            out = ((e.stdout or b"").decode(errors="replace") if isinstance(e.stdout, bytes) else (e.stdout or "")) + "\nTIMEOUT"
            to = True
        return h, out, to, time.time() - t0

    import concurrent.futures as cf
    # first invocation builds the crate; run it alone, then the rest in parallel
    outs = []
    if wanted:
        outs.append(run_one(wanted[0]))
        with cf.ThreadPoolExecutor(max_workers=8) as ex:
            outs.extend(ex.map(run_one, wanted[1:]))
    for h, out, to, wall in outs:
        m = metas.get(h, dict(name=h, props=[], complete=False, bound="?", file="?", line=0))
        r = dict(unit="km:" + h, engine="km", harness=h, properties=m["props"], complete=m["complete"], bound=m["bound"], wall_s=round(wall, 1),
                 errors=[], tool_errors=[], functions=[], checks_total=0, checks_failed=0, status="undecided",
                 checker_cmd="cargo kani --harness " + h + " --exact", extracted=log)
        mm = re.search(r"\*\* (\d+) of (\d+) failed", out)
        if mm:
            r["checks_failed"], r["checks_total"] = int(mm.group(1)), int(mm.group(2))
        cov = re.search(r"\*\* (\d+) of (\d+) cover properties satisfied", out)
        r["cover"] = cov.group(0) if cov else None
        if to:
            r["tool_errors"].append(dict(message=f"kani timeout after {timeout}s"))
        elif "VERIFICATION:- SUCCESSFUL" in out:
            if cov and cov.group(1) != cov.group(2):
                r["tool_errors"].append(dict(message="vacuity: cover!(true) not reached: " + cov.group(0)))
            else:
                r["status"] = "verified"
        elif "VERIFICATION:- FAILED" in out:
            fails = re.findall(r"Failed Checks: (.*)\n\s*File: \"([^\"]*)\", line (\d+), in (\S+)", out)
            unwind = [f for f in fails if "unwinding assertion" in f[0]]
            if unwind and len(unwind) == len(fails):
                r["tool_errors"].append(dict(message="unwinding bound too small: " + unwind[0][0]))
            else:
                r["status"] = "failed"
                for desc, file, line, fn in fails[:5]:
                    if "unwinding assertion" in desc:
                        continue
                    r["errors"].append(dict(kind="kani-check", semantic=True, fn=fn, tags=[" ".join(m["props"]) + " " + h], message=desc,
                                            origins=[dict(kind="kani", file=file, line=int(line), fn=fn, primary=True, text=desc, tag=None, label=None)],
                                            rendered="\n".join(out.splitlines()[-40:]), obligation=f"km::{h}::{fn}@{os.path.basename(file)}:{line}[{desc[:80]}]"))
                if r["errors"]:
                    cx = concrete_playback(crate, env, os.path.splitext(os.path.basename(m["file"]))[0], h)
                    for e in r["errors"]:
                        e["counterexample"] = cx
                        e["replayed"] = bool(cx and cx.get("native_run_fails"))
                if not r["errors"]:
                    r["status"] = "undecided"
                    r["tool_errors"].append(dict(message="kani failed without a parsable failed check", rendered=out[-1500:]))
        else:
            r["tool_errors"].append(dict(message="kani did not finish (build error?)", rendered=out[-2000:]))
        r["samples"] = [dict(obligation=f"kani harness {h} ({'complete' if m['complete'] else 'bounded: ' + m['bound']})", backend="kani/cbmc", checks=r["checks_total"], failed=r["checks_failed"], wall_s=r["wall_s"])]
        r["functions"] = [dict(file=f, fn=fn, impl=None, lines=[0, 0], kind="fn", rewrites={}) for f, fn in targets_of(h)]
        results.append(r)
    return results


if __name__ == "__main__":
    hs = sys.argv[1:]
    rs = run_units([dict(harnesses=hs, timeout=600)], "/tmp/kxout", "quick", 0)
    for r in rs:
        print(r["harness"], r["status"], r["checks_failed"], "/", r["checks_total"], r["wall_s"], "s", r["cover"], [e["obligation"] for e in r["errors"]], [t["message"][:300] for t in r["tool_errors"]])
