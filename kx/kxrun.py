"""Run Kani harnesses of the mini-crate engine (km).  Each harness is a contract on one real function
(assume pre; call; assert post) with a stated completeness label; results are parsed per harness."""
import json
import os
import re
import subprocess
import sys
import time

HERE = os.path.dirname(os.path.abspath(__file__))
ROOT = os.path.dirname(HERE)
sys.path.insert(0, HERE)
sys.path.insert(0, os.path.join(ROOT, "vx"))
import kxgen  # noqa: E402
from rsscan import LostAnchor  # noqa: E402

META_RE = re.compile(r"^// @harness\s+(\w+)\s*\|\s*([C0-9 ]+?)\s*\|\s*(complete|bounded)\s*\|\s*(.*)$")


def harness_meta():
    metas = {}
    hd = os.path.join(HERE, "harness")
    for f in sorted(os.listdir(hd)):
        if not f.endswith(".rs"):
            continue
        for ln, l in enumerate(open(os.path.join(hd, f)).read().splitlines(), 1):
            m = META_RE.match(l.strip())
            if m:
                metas[m.group(1)] = dict(name=m.group(1), props=m.group(2).split(), complete=m.group(3) == "complete", bound=m.group(4), file="kx/harness/" + f, line=ln)
    return metas


def run_units(units, outdir, tier, seed):
    """units: checks.json entries with engine km: {harnesses:[...], timeout}.  Returns result dicts (one per harness)."""
    metas = harness_meta()
    crate = os.path.join(ROOT, ".build", "km", "crate")
    os.makedirs(crate, exist_ok=True)
    results = []
    log = {}
    hs = [os.path.join(HERE, "harness", f) for f in sorted(os.listdir(os.path.join(HERE, "harness"))) if f.endswith(".rs")]
    try:
        kxgen.build(crate, hs, log)
    except LostAnchor as e:
        return [dict(unit="km:" + ",".join(u.get("harness", "?") for u in units), engine="km", status="undecided", errors=[], tool_errors=[dict(message=f"LOST-ANCHOR: {e}")], functions=[], properties=[])]
    wanted = []
    for u in units:
        wanted.extend(u["harnesses"] if "harnesses" in u else [u["harness"]])
    env = dict(os.environ, CARGO_NET_OFFLINE="true", CARGO_TARGET_DIR=os.path.join(ROOT, ".build", "km", "target"))
    timeout = max(u.get("timeout", 300) for u in units)

    def run_one(h):
        t0 = time.time()
        cmd = ["cargo", "kani", "--harness", h, "--exact", "--output-format", "regular"]
        # harness full name is <mod>::<fn>; --exact needs it: resolve from meta file
        mod = os.path.splitext(os.path.basename(metas[h]["file"]))[0] if h in metas else None
        cmd = ["cargo", "kani", "--harness", (mod + "::" + h) if mod else h, "--exact"]
        try:
            p = subprocess.run(cmd, cwd=crate, env=env, capture_output=True, text=True, timeout=timeout)
            out = p.stdout + "\n" + p.stderr
            to = False
        except subprocess.TimeoutExpired as e:
            out = ((e.stdout or b"").decode(errors="replace") if isinstance(e.stdout, bytes) else (e.stdout or "")) + "\nTIMEOUT"
            to = True
        return h, out, to, time.time() - t0

    import concurrent.futures as cf
    # first invocation builds the crate; run it alone, then the rest in parallel
    outs = []
    if wanted:
        outs.append(run_one(wanted[0]))
        with cf.ThreadPoolExecutor(max_workers=6) as ex:
            outs.extend(ex.map(run_one, wanted[1:]))
    for h, out, to, wall in outs:
        m = metas.get(h, dict(name=h, props=[], complete=False, bound="?", file="?", line=0))
        r = dict(unit="km:" + h, engine="km", harness=h, properties=m["props"], complete=m["complete"], bound=m["bound"], wall_s=round(wall, 1),
                 errors=[], tool_errors=[], functions=[], checks_total=0, checks_failed=0, status="undecided",
                 checker_cmd="cargo kani --harness " + h + " --exact", extracted=log)
        mm = re.search(r"\*\* (\d+) of (\d+) failed", out)
        if mm:
            r["checks_failed"], r["checks_total"] = int(mm.group(1)), int(mm.group(2))
        cov = re.search(r"\*\* (\d+) of (\d+) cover properties satisfied", out)
        r["cover"] = cov.group(0) if cov else None
        if to:
            r["tool_errors"].append(dict(message=f"kani timeout after {timeout}s"))
        elif "VERIFICATION:- SUCCESSFUL" in out:
            if cov and cov.group(1) != cov.group(2):
                r["tool_errors"].append(dict(message="vacuity: cover!(true) not reached: " + cov.group(0)))
            else:
                r["status"] = "verified"
        elif "VERIFICATION:- FAILED" in out:
            fails = re.findall(r"Failed Checks: (.*)\n\s*File: \"([^\"]*)\", line (\d+), in (\S+)", out)
            unwind = [f for f in fails if "unwinding assertion" in f[0]]
            if unwind and len(unwind) == len(fails):
                r["tool_errors"].append(dict(message="unwinding bound too small: " + unwind[0][0]))
            else:
                r["status"] = "failed"
                for desc, file, line, fn in fails[:5]:
                    if "unwinding assertion" in desc:
                        continue
                    r["errors"].append(dict(kind="kani-check", semantic=True, fn=fn, tags=[" ".join(m["props"]) + " " + h], message=desc,
                                            origins=[dict(kind="kani", file=file, line=int(line), fn=fn, primary=True, text=desc, tag=None, label=None)],
                                            rendered="\n".join(out.splitlines()[-40:]), obligation=f"km::{h}::{fn}@{os.path.basename(file)}:{line}[{desc[:80]}]"))
                if not r["errors"]:
                    r["status"] = "undecided"
                    r["tool_errors"].append(dict(message="kani failed without a parsable failed check", rendered=out[-1500:]))
        else:
            r["tool_errors"].append(dict(message="kani did not finish (build error?)", rendered=out[-2000:]))
        r["samples"] = [dict(obligation=f"kani harness {h} ({'complete' if m['complete'] else 'bounded: ' + m['bound']})", backend="kani/cbmc", checks=r["checks_total"], failed=r["checks_failed"], wall_s=r["wall_s"])]
        r["functions"] = []
        results.append(r)
    return results


if __name__ == "__main__":
    hs = sys.argv[1:]
    rs = run_units([dict(harnesses=hs, timeout=600)], "/tmp/kxout", "quick", 0)
    for r in rs:
        print(r["harness"], r["status"], r["checks_failed"], "/", r["checks_total"], r["wall_s"], "s", r["cover"], [e["obligation"] for e in r["errors"]], [t["message"][:300] for t in r["tool_errors"]])
