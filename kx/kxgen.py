"""Kani mini-crate generator: overlays REAL leaf files of /repo (copied verbatim at check time) on small shims and
appends contract-style harnesses.  What the extraction drops: `#[cfg(test)]` modules; error-message formatting
(`runtime_error!` expands to a unit error: no format!/anyhow under CBMC); items not listed below.
"""
import os
import re
import shutil
import sys

sys.path.insert(0, os.path.join(os.path.dirname(os.path.abspath(__file__)), "..", "vx"))
from rsscan import LostAnchor, find_fn, find_item, line_of, mask, match_close  # noqa: E402

REPO = os.environ.get("VERIF_REPO", "/repo")
HERE = os.path.dirname(os.path.abspath(__file__))
SRC = "ciphercore-base/src"

ERRORS_SHIM = '''// shim for crate::errors: a unit error, no anyhow, no message formatting (messages are not verified)
#[derive(Clone, Debug)]
pub struct Error {}
pub type Result<T> = std::result::Result<T, Error>;
#[macro_export]
macro_rules! runtime_error {
    ($($x:tt)*) => { $crate::errors::Error {} };
}
'''


def read(rel):
    p = os.path.join(REPO, rel)
    if not os.path.exists(p):
        raise LostAnchor(f"{rel} not found")
    return open(p, encoding="utf-8").read()


def strip_tests(src):
    """drop `#[cfg(test)] mod tests { ... }`"""
    msk = mask(src)
    m = re.search(r"#\[cfg\(test\)\]\s*mod\s+\w+\s*\{", msk)
    if not m:
        return src
    ob = m.end() - 1
    cb = match_close(msk, ob)
    return src[:m.start()] + src[cb + 1:]


def lift_item(src, msk, header_re):
    s, ob, cb = find_item(src, msk, header_re)
    # include attributes/doc comments directly above? no: attributes are dropped (serde/py-binding derive)
    return src[s:cb + 1]


def lift_fn(src, msk, name, impl=None):
    loc = find_fn(src, msk, name, impl)
    return src[loc["sig_start"]:loc["close"] + 1]


def lift_const(src, msk, name):
    ms = list(re.finditer(r"^[ \t]*(?:pub(?:\([a-z: ]+\))?\s+)?(?:const|type)\s+" + re.escape(name) + r"\b[^;]*;", msk, flags=re.M))
    if len(ms) != 1:
        raise LostAnchor(f"const/type {name}: {len(ms)} matches")
    return src[ms[0].start():ms[0].end()]


def pubify(text):
    text = re.sub(r"\bpub\([a-z: ]+\)\s+", "pub ", text)
    if re.match(r"\s*(?:const\s+)?(?:unsafe\s+)?fn\b", text):
        text = "pub " + text.lstrip()      # private items lifted by name become public inside the mini crate
    return text


def build(outdir, harness_files, log):
    """create the mini crate in outdir; harness_files: list of absolute paths.  log: dict filled with what was copied/lifted"""
    shutil.rmtree(os.path.join(outdir, "src"), ignore_errors=True)
    os.makedirs(os.path.join(outdir, "src", "inline"), exist_ok=True)
    with open(os.path.join(outdir, "Cargo.toml"), "w") as f:
        f.write('[package]\nname = "kxmini"\nversion = "0.1.0"\nedition = "2021"\n\n[workspace]\n\n[dependencies]\n\n[lints.rust]\nunexpected_cfgs = { level = "allow" }\n')
    os.makedirs(os.path.join(outdir, ".cargo"), exist_ok=True)
    with open(os.path.join(outdir, ".cargo", "config.toml"), "w") as f:
        f.write("[net]\noffline = true\n")
    w = lambda rel, txt: open(os.path.join(outdir, "src", rel), "w").write(txt)
    log["verbatim"] = []
    log["lifted"] = []
    # ---- errors shim
    w("errors.rs", ERRORS_SHIM)
    # ---- data_types: ScalarType + consts + helper fns lifted by name
    dt = read(f"{SRC}/data_types.rs")
    dm = mask(dt)
    parts = ["// lifted by name from ciphercore-base/src/data_types.rs (attributes dropped)\nuse crate::errors::Result;\n#[derive(PartialEq, Eq, Clone, Copy, Debug)]"]
    parts.append(lift_item(dt, dm, r"^pub enum ScalarType\s*\{"))
    for c in ["BIT", "UINT8", "INT8", "UINT16", "INT16", "UINT32", "INT32", "UINT64", "INT64", "UINT128", "INT128", "ArrayShape"]:
        parts.append(lift_const(dt, dm, c))
    parts.append("impl ScalarType {")
    for fn in ["is_signed", "get_modulus", "size_in_bits"]:
        parts.append(pubify(lift_fn(dt, dm, fn, "ScalarType")))
        log["lifted"].append(f"data_types.rs ScalarType::{fn}")
    parts.append("}")
    for fn in ["scalar_size_in_bits", "scalar_size_in_bytes"]:
        parts.append(pubify(lift_fn(dt, dm, fn)))
        log["lifted"].append(f"data_types.rs {fn}")
    w("data_types.rs", "\n".join(parts) + "\n")
    # ---- graphs: SliceElement + Slice
    gr = read(f"{SRC}/graphs.rs")
    gm = mask(gr)
    w("graphs.rs", "// lifted by name from ciphercore-base/src/graphs.rs\n#[derive(PartialEq, Eq, Clone, Debug)]\n" + lift_item(gr, gm, r"^pub enum SliceElement\s*\{") + "\n" + lift_const(gr, gm, "Slice") + "\n")
    log["lifted"].append("graphs.rs SliceElement, Slice")
    # ---- verbatim files
    for rel, dst in [("bytes.rs", "bytes.rs"), ("slices.rs", "slices.rs"), ("inline/data_structures.rs", "inline/data_structures.rs")]:
        txt = pubify(strip_tests(read(f"{SRC}/{rel}")))
        w(dst, "// VERBATIM copy of ciphercore-base/src/" + rel + " (only #[cfg(test)] module dropped, pub(super) -> pub)\n" + txt)
        log["verbatim"].append(rel)
    # ---- broadcast: index kernels lifted
    bc = read(f"{SRC}/broadcast.rs")
    bm = mask(bc)
    w("broadcast.rs", "// lifted by name from ciphercore-base/src/broadcast.rs\nuse crate::data_types::ArrayShape;\nuse crate::errors::Result;\nuse std::cmp::max;\n" + "\n".join(pubify(lift_fn(bc, bm, fn)) for fn in ["broadcast_shapes", "index_to_number", "number_to_index"]) + "\n")
    log["lifted"].append("broadcast.rs broadcast_shapes, index_to_number, number_to_index")
    # ---- inline_common: pick_prefix_sum_algorithm + enum
    ic = read(f"{SRC}/inline/inline_common.rs")
    im = mask(ic)
    w("inline/inline_common.rs", "// lifted by name from ciphercore-base/src/inline/inline_common.rs\nuse crate::errors::Result;\nuse crate::inline::data_structures::*;\n#[derive(Clone, Copy, Debug, PartialEq, Eq)]\n"
      + lift_item(ic, im, r"^pub enum DepthOptimizationLevel\s*\{") + "\n" + pubify(lift_const(ic, im, "PrefixSumAlgorithm")) + "\n" + pubify(lift_fn(ic, im, "pick_prefix_sum_algorithm")) + "\n")
    log["lifted"].append("inline_common.rs DepthOptimizationLevel, pick_prefix_sum_algorithm")
    # ---- evaluator kernels lifted by name
    se = read(f"{SRC}/evaluators/simple_evaluator.rs")
    sm = mask(se)
    ev = ["// lifted by name from ciphercore-base/src/evaluators/simple_evaluator.rs\nuse crate::errors::Result;\nuse crate::data_types::ArrayShape;\n"]
    for fn in ["execute_inverse_permutation"]:
        try:
            ev.append(pubify(lift_fn(se, sm, fn)))
            log["lifted"].append(f"simple_evaluator.rs {fn}")
        except LostAnchor as e:
            log.setdefault("missing", []).append(str(e))
    w("evaluator.rs", "\n".join(ev) + "\n")
    # ---- harnesses
    mods = []
    for hf in harness_files:
        name = os.path.splitext(os.path.basename(hf))[0]
        shutil.copy(hf, os.path.join(outdir, "src", name + ".rs"))
        mods.append(name)
    lib = "#![allow(unused, clippy::all)]\n#[macro_use]\npub mod errors;\npub mod data_types;\npub mod graphs;\npub mod bytes;\npub mod slices;\npub mod broadcast;\npub mod evaluator;\npub mod inline {\n    pub mod data_structures;\n    pub mod inline_common;\n}\n"
    lib += "".join(f"#[cfg(kani)]\nmod {m};\n" for m in mods)
    w("lib.rs", lib)
    return mods


if __name__ == "__main__":
    lg = {}
    hs = [os.path.join(HERE, "harness", f) for f in sorted(os.listdir(os.path.join(HERE, "harness"))) if f.endswith(".rs")]
    print(build(sys.argv[1] if len(sys.argv) > 1 else "/tmp/kxmini", hs, lg), lg)
