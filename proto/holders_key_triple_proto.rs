use vstd::prelude::*;
use vstd::set::*;
verus! {

pub const PARTIES: usize = 3;
pub const KEY_LENGTH: u64 = 128;

pub struct Error {}
pub type Result<T> = core::result::Result<T, Error>;
pub fn verr() -> Error { Error {} }
#[verifier::external_body]
pub fn vpanic() -> ! requires false { panic!() }

pub uninterp spec fn tget(a: int, i: int) -> int;
pub uninterp spec fn tupn(s: Seq<int>) -> int;
pub broadcast proof fn ax_tget(s: Seq<int>, i: int)
    requires 0 <= i < s.len()
    ensures #[trigger] tget(tupn(s), i) == s[i] { admit(); }
pub uninterp spec fn prf_val(key: int, iv: int, t: TypeSpec) -> int;
pub uninterp spec fn mm(a: int, b: int) -> int; // mixed multiply: a * bit

pub struct TypeSpec { pub id: int }
#[verifier::external_body]
pub struct Type { _p: u8 }
impl Type { pub uninterp spec fn sp(&self) -> TypeSpec; }
impl Clone for Type { #[verifier::external_body] fn clone(&self) -> (r: Self) ensures r.sp() == self.sp() { unimplemented!() } }
pub enum ScalarType { Bit, Other }
pub const BIT: ScalarType = ScalarType::Bit;
#[verifier::external_body]
pub fn array_type(shape: Vec<u64>, st: ScalarType) -> (r: Type) { unimplemented!() }

pub enum NodeAnnotation { Private, Send(u64, u64) }

#[verifier::external_body]
pub struct Node { _p: u8 }
#[verifier::external_body]
pub struct Graph { _p: u8 }

pub open spec fn all_parties() -> Set<int> { set![0int, 1int, 2int] }

impl Node {
    pub uninterp spec fn sem(&self) -> int;
    pub uninterp spec fn holders(&self) -> Set<int>;
    pub uninterp spec fn fresh(&self) -> bool;      // an un-sent Random draw
    pub uninterp spec fn recipients(&self) -> Set<int>;

    #[verifier::external_body]
    pub fn add(&self, b: Node) -> (r: Result<Node>)
        ensures r is Ok ==> { let n = r->Ok_0; n.sem() == self.sem() + b.sem() && n.holders() == self.holders().intersect(b.holders()) && !n.fresh()
            && n.recipients() == self.recipients().union(b.recipients()) } { unimplemented!() }
    #[verifier::external_body]
    pub fn subtract(&self, b: Node) -> (r: Result<Node>)
        ensures r is Ok ==> { let n = r->Ok_0; n.sem() == self.sem() - b.sem() && n.holders() == self.holders().intersect(b.holders()) && !n.fresh()
            && n.recipients() == self.recipients().union(b.recipients()) } { unimplemented!() }
    #[verifier::external_body]
    pub fn mixed_multiply(&self, b: Node) -> (r: Result<Node>)
        ensures r is Ok ==> { let n = r->Ok_0; n.sem() == mm(self.sem(), b.sem()) && n.holders() == self.holders().intersect(b.holders()) && !n.fresh()
            && n.recipients() == self.recipients().union(b.recipients()) } { unimplemented!() }
    #[verifier::external_body]
    pub fn nop(&self) -> (r: Result<Node>)
        ensures r is Ok ==> { let n = r->Ok_0; n.sem() == self.sem() && n.holders() == self.holders() && n.fresh() == self.fresh() && n.recipients() == self.recipients() } { unimplemented!() }
    #[verifier::external_body]
    pub fn add_annotation(&self, a: NodeAnnotation) -> (r: Result<Node>)
        requires a matches NodeAnnotation::Send(s, rc) ==> (s < 3 && rc < 3 && (self.fresh() || self.holders().contains(s as int))),
        ensures r is Ok ==> { let n = r->Ok_0; n.sem() == self.sem() && !n.fresh() &&
            (a matches NodeAnnotation::Send(s, rc) ==> (
                n.holders() == (if self.fresh() { set![s as int] } else { self.holders() }).insert(rc as int)
                && n.recipients() == self.recipients().insert(rc as int))) &&
            (a is Private ==> n.holders() == self.holders() && n.recipients() == self.recipients()) } { unimplemented!() }
    #[verifier::external_body]
    pub fn get_type(&self) -> (r: Result<Type>) { unimplemented!() }
    #[verifier::external_body]
    pub fn set_as_output(&self) -> (r: Result<Node>)
        ensures r is Ok ==> r->Ok_0 == *self { unimplemented!() }
}
impl Clone for Node {
    #[verifier::external_body]
    fn clone(&self) -> (r: Self) ensures r == *self { unimplemented!() }
}
impl Graph {
    #[verifier::external_body]
    pub fn random(&self, t: Type) -> (r: Result<Node>)
        ensures r is Ok ==> r->Ok_0.fresh() && r->Ok_0.recipients() == Set::<int>::empty() { unimplemented!() }
    #[verifier::external_body]
    pub fn nop(&self, a: Node) -> (r: Result<Node>)
        ensures r is Ok ==> { let n = r->Ok_0; n.sem() == a.sem() && n.holders() == a.holders() && n.fresh() == a.fresh() && n.recipients() == a.recipients() } { unimplemented!() }
    #[verifier::external_body]
    pub fn prf(&self, key: Node, iv: u64, t: Type) -> (r: Result<Node>)
        ensures r is Ok ==> { let n = r->Ok_0; n.sem() == prf_val(key.sem(), iv as int, t.sp()) && n.holders() == key.holders() && !n.fresh() && n.recipients() == key.recipients() } { unimplemented!() }
}
impl Clone for Graph { #[verifier::external_body] fn clone(&self) -> (r: Self) ensures r == *self { unimplemented!() } }

pub open spec fn key_triple_ok(v: Seq<Node>) -> bool {
    v.len() == 3 && forall|i: int| 0 <= i < 3 ==> #[trigger] v[i].holders() == set![i, (i + 2) % 3]
}

// ===== real text: mpc_compiler.rs generate_prf_key_triple (R4 type ascription, R6 let-rebinding) =====
pub fn generate_prf_key_triple(g: Graph) -> (res: Result<Vec<Node>>)
    ensures res is Ok ==> key_triple_ok(res->Ok_0@)
{
    let key_t = array_type(vec![KEY_LENGTH], BIT);
    let mut triple: Vec<Node> = vec![];
    for party_id in 0..PARTIES
        invariant triple.len() == party_id,
            forall|i: int| 0 <= i < party_id ==> #[trigger] triple@[i].holders() == set![i, (i + 2) % 3],
    {
        let key = g.random(key_t.clone())?;
        let key_sent = g.nop(key)?;
        let prev_party_id = (party_id + PARTIES - 1) % PARTIES;
        let key_sent = key_sent.add_annotation(NodeAnnotation::Send(party_id as u64, prev_party_id as u64))?;
        proof { assert(set![party_id as int].insert(prev_party_id as int) =~= set![party_id as int, (party_id as int + 2) % 3]); }
        triple.push(key_sent);
    }
    Ok(triple)
}

} // verus!
fn main() {}
