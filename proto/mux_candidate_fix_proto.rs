use vstd::prelude::*;
verus! {
pub struct Error {}
pub type Result<T> = core::result::Result<T, Error>;
pub fn verr() -> Error { Error {} }

#[derive(PartialEq, Eq, Clone, Copy, Structural)]
pub enum ScalarType { Bit, I32 }
pub const BIT: ScalarType = ScalarType::Bit;
#[verifier::external_body]
pub struct Type { _p: u8 }
impl Type {
    pub uninterp spec fn st(&self) -> ScalarType;
    pub uninterp spec fn is_sc(&self) -> bool;
    pub uninterp spec fn is_arr(&self) -> bool;
    #[verifier::external_body] pub fn is_scalar(&self) -> (r: bool) ensures r == self.is_sc() { unimplemented!() }
    #[verifier::external_body] pub fn is_array(&self) -> (r: bool) ensures r == self.is_arr() { unimplemented!() }
    #[verifier::external_body] pub fn get_scalar_type(&self) -> (r: ScalarType) ensures r == self.st() { unimplemented!() }
}
impl Clone for Type { #[verifier::external_body] fn clone(&self) -> (r: Self) ensures r == *self { unimplemented!() } }
#[verifier::external_body]
pub fn scalar_type(st: ScalarType) -> (r: Type) ensures r.st() == st, r.is_sc() { unimplemented!() }

#[verifier::external_body] pub struct Node { _p: u8 }
#[verifier::external_body] pub struct Graph { _p: u8 }
#[verifier::external_body] pub struct Context { _p: u8 }
impl Clone for Node { #[verifier::external_body] fn clone(&self) -> (r: Self) ensures r == *self { unimplemented!() } }

// Z_m scalar abstraction: sem in [0,2) for BIT nodes, any int for integer nodes (Z-module).
impl Node {
    pub uninterp spec fn sem(&self) -> int;
    pub uninterp spec fn st(&self) -> ScalarType;
    pub open spec fn wf(&self) -> bool { self.st() == BIT ==> (self.sem() == 0 || self.sem() == 1) }
    #[verifier::external_body]
    pub fn add(&self, b: Node) -> (r: Result<Node>)
        requires self.wf(), b.wf()
        ensures r is Ok ==> { let n = r->Ok_0; n.graph() == self.graph() && self.st() == b.st() && n.st() == self.st() && n.wf()
            && n.sem() == (if self.st() == BIT { (self.sem() + b.sem()) % 2 } else { self.sem() + b.sem() }) } { unimplemented!() }
    #[verifier::external_body]
    pub fn multiply(&self, b: Node) -> (r: Result<Node>)
        requires self.wf(), b.wf()
        ensures r is Ok ==> { let n = r->Ok_0; n.graph() == self.graph() && self.st() == b.st() && n.st() == self.st() && n.wf()
            && n.sem() == (if self.st() == BIT { if self.sem() == 1 && b.sem() == 1 { 1int } else { 0int } } else { self.sem() * b.sem() }) } { unimplemented!() }
    #[verifier::external_body]
    pub fn mixed_multiply(&self, b: Node) -> (r: Result<Node>)
        requires self.wf(), b.wf()
        ensures r is Ok ==> { let n = r->Ok_0; n.graph() == self.graph() && self.st() != BIT && b.st() == BIT && n.st() == self.st() && n.wf()
            && n.sem() == (if b.sem() == 1 { self.sem() } else { 0int }) } { unimplemented!() }
    pub uninterp spec fn graph(&self) -> Graph;
    #[verifier::external_body]
    pub fn set_as_output(&self) -> (r: Result<Node>) ensures r is Ok ==> r->Ok_0 == *self && self.graph().out() == *self { unimplemented!() }
}
impl Graph {
    pub uninterp spec fn out(&self) -> Node;
    pub uninterp spec fn inputs(&self) -> Seq<Node>;
    #[verifier::external_body]
    pub fn input(&self, t: Type) -> (r: Result<Node>)
        ensures r is Ok ==> r->Ok_0.st() == t.st() && r->Ok_0.wf() && r->Ok_0.graph() == *self { unimplemented!() }
    #[verifier::external_body]
    pub fn ones(&self, t: Type) -> (r: Result<Node>)
        ensures r is Ok ==> r->Ok_0.st() == t.st() && r->Ok_0.sem() == 1 { unimplemented!() }
    #[verifier::external_body]
    pub fn finalize(&self) -> (r: Result<Graph>) ensures r is Ok ==> r->Ok_0 == *self { unimplemented!() }
}
impl Context {
    #[verifier::external_body]
    pub fn create_graph(&self) -> (r: Result<Graph>) { unimplemented!() }
}

pub struct Mux {}
pub open spec fn mux_spec(f: int, c1: int, c0: int) -> int { if f == 1 { c1 } else { c0 } }
impl Mux {
    // ===== real text of multiplexer.rs:48-81 (R1, R2); injected ghost lines are marked //@ =====
    fn instantiate(&self, context: Context, arguments_types: Vec<Type>) -> (res: Result<Graph>)
    {
        if arguments_types.len() != 3 {
            return Err(verr());
        }
        let t = arguments_types[0].clone();
        if !t.is_scalar() && !t.is_array() {
            return Err(verr());
        }
        if t.get_scalar_type() != BIT {
            return Err(verr());
        }
        if arguments_types[1].get_scalar_type() != arguments_types[2].get_scalar_type() {
            return Err(verr());
        }

        let g = context.create_graph()?;
        let i_flag = g.input(arguments_types[0].clone())?;
        let i_choice1 = g.input(arguments_types[1].clone())?;
        let i_choice0 = g.input(arguments_types[2].clone())?;
        let ghost in_f = i_flag; let ghost in_c1 = i_choice1; let ghost in_c0 = i_choice0; //@
        if arguments_types[1].get_scalar_type() == BIT {
            i_choice0
                .add(i_flag.multiply(i_choice0.add(i_choice1)?)?)?
                .set_as_output()?;
        } else {
            let i_choice1 = i_choice1.mixed_multiply(i_flag.clone())?;
            let i_choice0 = i_choice0.mixed_multiply(i_flag.add(g.ones(scalar_type(BIT))?)?)?;
            i_choice0.add(i_choice1)?.set_as_output()?;
        }
        proof { assert(g.out().sem() == mux_spec(in_f.sem(), in_c1.sem(), in_c0.sem())); } //@ POST C17
        g.finalize()?;
        Ok(g)
    }
}
}
fn main() {}
