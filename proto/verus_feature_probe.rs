use vstd::prelude::*;
verus! {
pub struct Error {}
pub type Result<T> = core::result::Result<T, Error>;
#[verifier::external_body]
pub struct Node { _p: u8 }
impl Node {
    pub uninterp spec fn sem(&self) -> int;
    #[verifier::external_body]
    pub fn add(&self, b: Node) -> (r: Result<Node>)
        ensures r is Ok ==> r->Ok_0.sem() == self.sem() + b.sem() { unimplemented!() }
    #[verifier::external_body]
    pub fn nop(&self) -> (r: Result<Node>)
        ensures r is Ok ==> r->Ok_0.sem() == self.sem() { unimplemented!() }
}
impl Clone for Node {
    #[verifier::external_body]
    fn clone(&self) -> (r: Self) ensures r.sem() == self.sem() { unimplemented!() }
}
pub enum Type { Scalar(u8), Array(u8, u8), Tuple(u8) }

#[verifier::external_body]
pub fn vpanic() -> ! requires false { panic!() }

// 1. closure capturing immutable
fn t_closure(a: Node, k: Node) -> (r: Result<Node>)
    ensures r is Ok ==> r->Ok_0.sem() == a.sem() + k.sem() + k.sem()
{
    let addk = |x: Node| -> (res: Result<Node>)
        ensures res is Ok ==> res->Ok_0.sem() == x.sem() + k.sem()
        { x.add(k.clone()) };
    let y = addk(a)?;
    addk(y)
}

// 2. for x in vec (by value), or-patterns, vec![x; n], v[i] = x
fn t_misc(v: Vec<Node>, t: Type, z: Node) -> (r: Result<Vec<Node>>)
    requires v.len() == 3
{
    let mut out: Vec<Node> = vec![];
    for x in it: v
        invariant out.len() == it.index@
    {
        out.push(x.nop()?);
    }
    match t {
        Type::Scalar(_) | Type::Array(_, _) => {}
        _ => { vpanic(); }
    }
    Ok(out)
}

fn t_assign(z: Node) -> (r: Vec<Node>) {
    let mut shares = vec![z.clone(); 3];
    shares[1] = z;
    shares
}
}
fn main() {}
