use vstd::prelude::*;
verus! {

pub const PARTIES: usize = 3;

// ---------- abstract value domain: Z-module with an uninterpreted bilinear product ----------
pub type Val = int;
pub open spec fn radd(a: Val, b: Val) -> Val { a + b }
pub uninterp spec fn rmul(a: Val, b: Val) -> Val;
pub uninterp spec fn tget(a: Val, i: int) -> Val;
pub uninterp spec fn tup3(a: Val, b: Val, c: Val) -> Val;
pub broadcast proof fn ax_distr_l(a: Val, b: Val, c: Val) ensures #[trigger] rmul(a, b + c) == rmul(a,b) + rmul(a,c) { admit(); }
pub broadcast proof fn ax_distr_r(a: Val, b: Val, c: Val) ensures #[trigger] rmul(a + b, c) == rmul(a,c) + rmul(b,c) { admit(); }
pub broadcast proof fn ax_tget(a: Val, b: Val, c: Val)
  ensures #![trigger tup3(a,b,c)] tget(tup3(a,b,c),0)==a, tget(tup3(a,b,c),1)==b, tget(tup3(a,b,c),2)==c { admit(); }
pub open spec fn sum3(t: Val) -> Val { tget(t,0) + tget(t,1) + tget(t,2) }

// ---------- stubbed graph API with assumed contracts ----------
pub struct Error {}
pub type Result<T> = core::result::Result<T, Error>;

#[verifier::external_body]
pub struct Node { _p: u8 }
#[verifier::external_body]
pub struct Graph { _p: u8 }

pub enum Operation { Multiply, Dot, Other }

impl Clone for Operation {
    fn clone(&self) -> (r: Self) ensures r == *self { match self { Operation::Multiply => Operation::Multiply, Operation::Dot => Operation::Dot, Operation::Other => Operation::Other } }
}

impl Node {
    pub uninterp spec fn sem(&self) -> Val;
    #[verifier::external_body]
    pub fn multiply(&self, b: Node) -> (r: Result<Node>)
        ensures r is Ok ==> r->Ok_0.sem() == rmul(self.sem(), b.sem()) { unimplemented!() }
    #[verifier::external_body]
    pub fn dot(&self, b: Node) -> (r: Result<Node>)
        ensures r is Ok ==> r->Ok_0.sem() == rmul(self.sem(), b.sem()) { unimplemented!() }
    #[verifier::external_body]
    pub fn set_as_output(&self) -> (r: Result<Node>)
        ensures r is Ok ==> r->Ok_0.sem() == self.sem() { unimplemented!() }
}
impl Clone for Node {
    #[verifier::external_body]
    fn clone(&self) -> (r: Self) ensures r.sem() == self.sem() { unimplemented!() }
}
impl Graph {
    #[verifier::external_body]
    pub fn tuple_get(&self, t: Node, i: u64) -> (r: Result<Node>)
        ensures r is Ok ==> r->Ok_0.sem() == tget(t.sem(), i as int) { unimplemented!() }
    #[verifier::external_body]
    pub fn add(&self, a: Node, b: Node) -> (r: Result<Node>)
        ensures r is Ok ==> r->Ok_0.sem() == radd(a.sem(), b.sem()) { unimplemented!() }
    #[verifier::external_body]
    pub fn create_tuple(&self, v: Vec<Node>) -> (r: Result<Node>)
        ensures r is Ok && v.len() == 3 ==> r->Ok_0.sem() == tup3(v@[0].sem(), v@[1].sem(), v@[2].sem()) { unimplemented!() }
}

fn bilinear_product(l: Node, r: Node, op: Operation) -> (res: Result<Node>)
    ensures res is Ok ==> res->Ok_0.sem() == rmul(l.sem(), r.sem())
{
    match op {
        Operation::Multiply => l.multiply(r),
        Operation::Dot => l.dot(r),
        _ => Err(Error{}),
    }
}

fn private_product(node0: Node, node1: Node, g: Graph, op: Operation) -> (res: Result<Node>)
    ensures res is Ok ==> sum3(res->Ok_0.sem()) == rmul(sum3(node0.sem()), sum3(node1.sem()))
{
    let mut shares0: Vec<Node> = vec![];
    let mut shares1: Vec<Node> = vec![];
    for i in 0..PARTIES as u64
        invariant shares0.len() == i, shares1.len() == i,
            forall|j: int| 0 <= j < i ==> (#[trigger] shares0@[j]).sem() == tget(node0.sem(), j),
            forall|j: int| 0 <= j < i ==> (#[trigger] shares1@[j]).sem() == tget(node1.sem(), j),
    {
        let share0 = g.tuple_get(node0.clone(), i)?;
        shares0.push(share0);
        let share1 = g.tuple_get(node1.clone(), i)?;
        shares1.push(share1);
    }
    let mut z_shares: Vec<Node> = vec![];
    for i in 0..PARTIES
        invariant shares0.len() == 3, shares1.len() == 3, z_shares.len() == i,
            forall|j: int| 0 <= j < 3 ==> (#[trigger] shares0@[j]).sem() == tget(node0.sem(), j),
            forall|j: int| 0 <= j < 3 ==> (#[trigger] shares1@[j]).sem() == tget(node1.sem(), j),
            forall|j: int| 0 <= j < i ==> (#[trigger] z_shares@[j]).sem() ==
                radd(rmul(tget(node0.sem(), j), radd(tget(node1.sem(), j), tget(node1.sem(), (j+1)%3))),
                     rmul(tget(node0.sem(), (j+1)%3), tget(node1.sem(), j))),
    {
        let ip1 = (i + 1) % PARTIES;
        let z1 = g.add(shares1[i].clone(), shares1[ip1].clone())?;
        let z2 = bilinear_product(shares0[i].clone(), z1, op.clone())?;
        let z3 = bilinear_product(shares0[ip1].clone(), shares1[i].clone(), op.clone())?;
        let z = g.add(z2, z3)?;
        z_shares.push(z.clone());
    }
    let r = g.create_tuple(z_shares)?.set_as_output();
    proof {
        broadcast use ax_distr_l, ax_distr_r, ax_tget;
    }
    r
}

} // verus!
fn main() {}
