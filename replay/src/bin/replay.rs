//! Concrete replay runner: turns a failed obligation into a failing input on the REAL code of /repo.
//! It never decides a property; it only confirms (found=true) or fails to confirm (found=false).
//! usage: replay <routine> [seed]   -> one JSON object on stdout
use ciphercore_base::custom_ops::{run_instantiation_pass, CustomOperation};
use ciphercore_base::data_types::*;
use ciphercore_base::data_values::Value;
use ciphercore_base::errors::Result;
use ciphercore_base::evaluators::random_evaluate;
use ciphercore_base::graphs::{create_context, Graph};
use ciphercore_base::ops::multiplexer::Mux;
use serde_json::json;
use std::panic::{catch_unwind, AssertUnwindSafe};

struct Rng(u64);
impl Rng {
    fn next(&mut self) -> u64 {
        self.0 ^= self.0 << 13;
        self.0 ^= self.0 >> 7;
        self.0 ^= self.0 << 17;
        self.0
    }
}

fn eval_custom(op: CustomOperation, types: Vec<Type>, vals: Vec<Value>) -> Result<Value> {
    let c = create_context()?;
    let g = c.create_graph()?;
    let mut ins = vec![];
    for t in types {
        ins.push(g.input(t)?);
    }
    let o = g.custom_op(op, ins)?;
    g.set_output_node(o)?;
    g.finalize()?;
    c.set_main_graph(g.clone())?;
    c.finalize()?;
    let m = run_instantiation_pass(c)?;
    let gm: Graph = m.mappings.get_graph(g);
    random_evaluate(gm, vals)
}

fn mux_int(seed: u64) -> serde_json::Value {
    let mut rng = Rng(seed | 1);
    let sts = [INT32, UINT8, INT64, UINT16];
    for it in 0..200 {
        let st = sts[it % sts.len()];
        let f = (rng.next() & 1) as u64;
        let a = rng.next() % 100;
        let b = rng.next() % 100;
        let r = eval_custom(
            CustomOperation::new(Mux {}),
            vec![scalar_type(BIT), scalar_type(st), scalar_type(st)],
            vec![Value::from_scalar(f, BIT).unwrap(), Value::from_scalar(a, st).unwrap(), Value::from_scalar(b, st).unwrap()],
        );
        let expected = if f == 1 { a } else { b };
        match r {
            Ok(v) => {
                let got = v.to_u64(st).unwrap();
                if got != expected {
                    return json!({"found": true, "routine": "mux_int", "input": {"scalar_type": format!("{}", st), "selector": f, "second": a, "third": b},
                        "expected": expected, "observed": got, "what": "Mux(selector, second, third) evaluated through instantiation + SimpleEvaluator"});
                }
            }
            Err(e) => return json!({"found": true, "routine": "mux_int", "input": {"selector": f, "second": a, "third": b}, "observed": format!("error {}", e)}),
        }
    }
    json!({"found": false, "routine": "mux_int", "tried": 200})
}

fn mux_panic(_seed: u64) -> serde_json::Value {
    let cands: Vec<(&str, Type)> = vec![
        ("tuple(bit)", tuple_type(vec![scalar_type(BIT)])),
        ("vector(2,bit)", vector_type(2, scalar_type(BIT))),
        ("named_tuple", named_tuple_type(vec![("a".to_owned(), scalar_type(INT32))])),
    ];
    for (name, t) in cands {
        let r = catch_unwind(AssertUnwindSafe(|| {
            let c = create_context().unwrap();
            let g = c.create_graph().unwrap();
            let f = g.input(scalar_type(BIT)).unwrap();
            let a = g.input(t.clone()).unwrap();
            let b = g.input(t.clone()).unwrap();
            g.custom_op(CustomOperation::new(Mux {}), vec![f, a, b]).is_err()
        }));
        if r.is_err() {
            return json!({"found": true, "routine": "mux_panic", "input": {"choice_types": name}, "expected": "Err(..) when the node is added", "observed": "panic",
                "what": "g.custom_op(Mux, [bit, T, T]) with T neither scalar nor array"});
        }
    }
    json!({"found": false, "routine": "mux_panic", "tried": 3})
}

// ---------------------------------------------------------------------------------------------
// party_sim: compile small graphs with the real compiler for every owner / output-party combination and
// (C02) track which parties can compute each node of the real compiled graph, (C03) look at what a
// non-recipient receives, (C01) compare the revealed result with plaintext evaluation.
mod party_sim {
    use ciphercore_base::data_types::*;
    use ciphercore_base::data_values::Value;
    use ciphercore_base::errors::Result;
    use ciphercore_base::evaluators::simple_evaluator::SimpleEvaluator;
    use ciphercore_base::evaluators::{random_evaluate, Evaluator};
    use ciphercore_base::graphs::util::simple_context;
    use ciphercore_base::graphs::{Context, Graph, Node, NodeAnnotation, Operation};
    use ciphercore_base::inline::inline_ops::{InlineConfig, InlineMode};
    use ciphercore_base::mpc::mpc_compiler::{prepare_for_mpc_evaluation, IOStatus};
    use serde_json::json;

    // what the parties know about a value: `h[p]` = party p can compute it; `local` = it depends on a party's OWN randomness (a Random
    // node that was not sent), so different parties compute different versions of it and only a Send makes one version common
    #[derive(Clone, Debug)]
    enum K { Leaf([bool; 3], bool), Tup(Vec<K>) }
    impl K {
        fn holders(&self) -> [bool; 3] {
            match self {
                K::Leaf(s, _) => *s,
                K::Tup(v) => { let mut r = [true; 3]; for k in v { let h = k.holders(); for i in 0..3 { r[i] &= h[i]; } } r }
            }
        }
        fn local(&self) -> bool { match self { K::Leaf(_, l) => *l, K::Tup(v) => v.iter().any(|k| k.local()) } }
        // holders that agree on ONE value
        fn common(&self) -> [bool; 3] { if self.local() { [false; 3] } else { self.holders() } }
        fn send(&self, s: usize, r: usize) -> std::result::Result<K, String> {
            match self {
                K::Leaf(h, l) => { if !h[s] { return Err(format!("party {} sends a value held only by {:?}", s, h)); }
                    let mut n = if *l { [false; 3] } else { *h }; n[s] = true; n[r] = true; Ok(K::Leaf(n, false)) }
                K::Tup(v) => { let mut o = vec![]; for k in v { o.push(k.send(s, r)?); } Ok(K::Tup(o)) }
            }
        }
    }

    pub struct Case { pub name: &'static str, pub types: Vec<Type>, pub build: fn(&Graph, &[Node]) -> Result<Node>, pub exact: bool }

    pub fn cases() -> Vec<Case> {
        vec![
            Case { name: "a+b (i32)", types: vec![scalar_type(INT32), scalar_type(INT32)], build: |_g, i| i[0].add(i[1].clone()), exact: true },
            Case { name: "a-b (i32)", types: vec![scalar_type(INT32), scalar_type(INT32)], build: |_g, i| i[0].subtract(i[1].clone()), exact: true },
            Case { name: "a*b (i32)", types: vec![scalar_type(INT32), scalar_type(INT32)], build: |_g, i| i[0].multiply(i[1].clone()), exact: true },
            Case { name: "a*b+a (u8[2])", types: vec![array_type(vec![2], UINT8), array_type(vec![2], UINT8)], build: |_g, i| i[0].multiply(i[1].clone())?.add(i[0].clone()), exact: true },
            Case { name: "sum(a[1]-b[3]) (i32)", types: vec![array_type(vec![1], INT32), array_type(vec![3], INT32)], build: |_g, i| i[0].subtract(i[1].clone())?.sum(vec![0]), exact: true },
            Case { name: "sum(a[3]+b[1]) (i32)", types: vec![array_type(vec![3], INT32), array_type(vec![1], INT32)], build: |_g, i| i[0].add(i[1].clone())?.sum(vec![0]), exact: true },
            Case { name: "mixed_multiply(i32, bit)", types: vec![scalar_type(INT32), scalar_type(BIT)], build: |_g, i| i[0].mixed_multiply(i[1].clone()), exact: true },
            Case { name: "inverse_permutation(a*b, [1,2,3,0]) (i32[4], public permutation)", types: vec![array_type(vec![4], INT32), array_type(vec![4], INT32)],
                build: |g, i| { let p = g.constant(array_type(vec![4], UINT64), Value::from_flattened_array(&[1u64, 2, 3, 0], UINT64)?)?; i[0].multiply(i[1].clone())?.apply_inverse_permutation(p) }, exact: true },
            Case { name: "permutation(a+b, [2,0,3,1]) (i32[4], public permutation)", types: vec![array_type(vec![4], INT32), array_type(vec![4], INT32)],
                build: |g, i| { let p = g.constant(array_type(vec![4], UINT64), Value::from_flattened_array(&[2u64, 0, 3, 1], UINT64)?)?; i[0].add(i[1].clone())?.apply_permutation(p) }, exact: true },
            Case { name: "b2a(a2b(a) AND a2b(b)) (u8)", types: vec![scalar_type(UINT8), scalar_type(UINT8)], build: |_g, i| i[0].a2b()?.multiply(i[1].a2b()?)?.b2a(UINT8), exact: true },
            Case { name: "truncate(a*b, 10) (i64[2])", types: vec![array_type(vec![2], INT64), array_type(vec![2], INT64)], build: |_g, i| i[0].multiply(i[1].clone())?.truncate(10), exact: false },
            Case { name: "truncate(a*b+a, 8) (i64[2])", types: vec![array_type(vec![2], INT64), array_type(vec![2], INT64)], build: |_g, i| i[0].multiply(i[1].clone())?.add(i[0].clone())?.truncate(8), exact: false },
            Case { name: "a AND b (bit[1])", types: vec![array_type(vec![1], BIT), array_type(vec![1], BIT)], build: |_g, i| i[0].multiply(i[1].clone()), exact: true },
        ]
    }

    fn flat(v: &Value, t: &Type) -> Result<Vec<u64>> { if t.is_scalar() { Ok(vec![v.to_u64(t.get_scalar_type())?]) } else { v.to_flattened_array_u64(t.clone()) } }
    fn statuses() -> Vec<IOStatus> { vec![IOStatus::Party(0), IOStatus::Party(1), IOStatus::Party(2), IOStatus::Public] }

    fn out_lists() -> Vec<Vec<u64>> {
        let mut res = vec![vec![]];
        for a in 0..3u64 { res.push(vec![a]); for b in 0..3u64 { if b == a { continue; } res.push(vec![a, b]); for c in 0..3u64 { if c == a || c == b { continue; } res.push(vec![a, b, c]); } } }
        res
    }

    fn compile(case: &Case, owners: &[IOStatus], outs: &[u64]) -> Result<(Context, Context)> {
        let types = case.types.clone();
        let build = case.build;
        let c = simple_context(|g| { let mut ins = vec![]; for t in &types { ins.push(g.input(t.clone())?); } build(g, &ins) })?;
        let m = prepare_for_mpc_evaluation(&c, vec![owners.to_vec()], vec![outs.iter().map(|p| IOStatus::Party(*p)).collect()],
            InlineConfig { default_mode: InlineMode::Simple, ..Default::default() })?;
        Ok((c, m.get_context()))
    }

    /// C02: static per-party knowledge analysis of the real compiled graph
    pub fn knowledge(g: &Graph, owners: &[IOStatus], outs: &[u64]) -> Result<Vec<String>> { Ok(knowledge_full(g, owners, outs)?.0) }
    fn knowledge_full(g: &Graph, owners: &[IOStatus], outs: &[u64]) -> Result<(Vec<String>, Vec<K>)> {
        let mut v = vec![];
        let mut ks: Vec<K> = vec![];
        let mut input_id = 0;
        for node in g.get_nodes() {
            let deps: Vec<K> = node.get_node_dependencies().iter().map(|d| ks[d.get_id() as usize].clone()).collect();
            let send = node.get_annotations()?.into_iter().find_map(|a| match a { NodeAnnotation::Send(s, r) => Some((s as usize, r as usize)), _ => None });
            let k = match node.get_operation() {
                Operation::Input(_) => {
                    let k = match &owners[input_id] {
                        IOStatus::Party(p) => { let mut h = [false; 3]; h[*p as usize] = true; K::Leaf(h, false) }
                        IOStatus::Public => K::Leaf([true; 3], false),
                        IOStatus::Shared => K::Tup((0..3).map(|i| { let mut h = [false; 3]; h[i] = true; h[(i + 2) % 3] = true; K::Leaf(h, false) }).collect()),
                    };
                    input_id += 1;
                    k
                }
                Operation::Random(_) => K::Leaf([true; 3], true),
                Operation::CreateTuple | Operation::CreateNamedTuple(_) | Operation::CreateVector(_) => K::Tup(deps),
                Operation::TupleGet(i) => match &deps[0] { K::Tup(t) => t[i as usize].clone(), o => o.clone() },
                Operation::NamedTupleGet(name) => match &deps[0] {
                    K::Tup(t) => { let dt = node.get_node_dependencies()[0].get_type()?;
                        let idx = if let Type::NamedTuple(fields) = dt { fields.iter().position(|(n, _)| *n == name) } else { None };
                        match idx { Some(i) if i < t.len() => t[i].clone(), _ => deps[0].clone() } }
                    o => o.clone() },
                Operation::NOP => match send {
                    Some((s, r)) => match deps[0].send(s, r) {
                        Ok(k) => k,
                        Err(m) => { v.push(format!("node {}: Send({},{}): {}", node.get_id(), s, r, m)); let mut h = [false; 3]; h[s] = true; h[r] = true; K::Leaf(h, false) }
                    },
                    None => deps[0].clone(),
                },
                _ => { let mut h = [true; 3]; let mut l = false; for d in &deps { let dh = d.holders(); l |= d.local(); for i in 0..3 { h[i] &= dh[i]; } } K::Leaf(h, l) }
            };
            ks.push(k);
        }
        if let Ok(tr) = std::env::var("REPLAY_TRACE") {
            // developer aid: print the ancestry of a node with ops and holders
            let mut todo = vec![tr.parse::<u64>().unwrap_or(0)]; let mut seen = std::collections::BTreeSet::new(); let mut shown = 0;
            while let Some(id) = todo.pop() { if !seen.insert(id) || shown > 60 { continue; } shown += 1;
                let n = &g.get_nodes()[id as usize];
                eprintln!("node {} {} ann={:?} holders={:?} local={} deps={:?}", id, n.get_operation(), n.get_annotations()?, ks[id as usize].holders(), ks[id as usize].local(), n.get_node_dependencies().iter().map(|d| d.get_id()).collect::<Vec<_>>());
                for d in n.get_node_dependencies() { if ks[d.get_id() as usize].holders() != [true; 3] { todo.push(d.get_id()); } } }
        }
        let out = g.get_output_node()?;
        let ko = ks[out.get_id() as usize].clone();
        if outs.is_empty() {
            if let K::Tup(t) = &ko {
                for i in 0..3 { let h = t[i].common(); if !(h[i] && h[(i + 2) % 3]) { v.push(format!("shared output: share {} is held by {:?}, not by parties {} and {}", i, h, i, (i + 2) % 3)); } }
            }
        } else {
            let h = ko.common();
            for p in outs { if !h[*p as usize] { v.push(format!("output party {} never obtains the result (held by {:?})", p, h)); } }
        }
        Ok((v, ks))
    }

    fn run_nodes(g: &Graph, inputs: &[Value], seed: [u8; 16]) -> Result<Vec<Value>> {
        let mut ev = SimpleEvaluator::new(Some(seed))?;
        ev.preprocess(&g.get_context())?;
        let mut vals: Vec<Value> = vec![];
        let mut input_id = 0;
        for node in g.get_nodes() {
            let val = match node.get_operation() {
                Operation::Input(_) => { input_id += 1; inputs[input_id - 1].clone() }
                _ => { let d = node.get_node_dependencies().iter().map(|d| vals[d.get_id() as usize].clone()).collect(); ev.evaluate_node(node.clone(), d)? }
            };
            vals.push(val);
        }
        Ok(vals)
    }

    // inputs for the privacy experiments: public inputs are the same in every choice, only private ones change
    fn mk_inputs_priv(case: &Case, owners: &[IOStatus], which: u64) -> Vec<Value> {
        let a = mk_inputs(case, 1); let b = mk_inputs(case, which);
        owners.iter().enumerate().map(|(k, o)| if matches!(o, IOStatus::Public) { a[k].clone() } else { b[k].clone() }).collect()
    }
    fn mk_inputs(case: &Case, which: u64) -> Vec<Value> {
        case.types.iter().enumerate().map(|(k, t)| {
            let st = t.get_scalar_type();
            let n: u64 = if t.is_scalar() { 1 } else { t.get_shape().iter().product() };
            let vals: Vec<u64> = (0..n).map(|j| if st == BIT { (which >> (k as u64 + j)) & 1 } else { 3 + which * 5 + (k as u64) * 2 + j }).collect();
            if t.is_scalar() { Value::from_scalar(vals[0], st).unwrap() } else { Value::from_flattened_array(&vals, st).unwrap() }
        }).collect()
    }

    pub fn run(seed: u64, want: &str) -> serde_json::Value {
        let mut tried = 0u64;
        for case in cases() {
            if let Ok(f) = std::env::var("REPLAY_CASE") { if !case.name.contains(&f) { continue; } } // developer aid
            let st = statuses();
            for o0 in &st { for o1 in &st {
                let owners = vec![o0.clone(), o1.clone()];
                for outs in out_lists() {
                    tried += 1;
                    if let Ok(f) = std::env::var("REPLAY_OWNERS") { if format!("{:?} {:?}", owners, outs) != f { continue; } } // developer aid
                    if std::env::var("REPLAY_DEBUG").is_ok() { eprintln!("case {} {:?} {:?}", case.name, owners, outs); }
                    let (plain_c, mpc_c) = match compile(&case, &owners, &outs) { Ok(x) => x, Err(e) => return json!({"found": true, "routine": "party_sim", "property": "C01",
                        "input": {"graph": case.name, "owners": format!("{:?}", owners), "output_parties": outs}, "observed": format!("compile error: {}", e)}) };
                    let g = mpc_c.get_main_graph().unwrap();
                    let is_private = owners.iter().any(|o| !matches!(o, IOStatus::Public));
                    if !is_private { continue; } // all-public graphs are not compiled into protocols
                    if want == "C02" || want == "any" {
                        let v = knowledge(&g, &owners, &outs).unwrap();
                        if !v.is_empty() && is_private {
                            return json!({"found": true, "routine": "party_sim", "property": "C02", "input": {"graph": case.name, "owners": format!("{:?}", owners), "output_parties": outs},
                                "observed": v, "expected": "every Send sender holds the value; every listed output party (or every share slot) ends with what it is owed",
                                "what": "per-party knowledge analysis of the graph produced by prepare_for_mpc_evaluation (real compiler)"});
                        }
                    }
                    if (want == "C01" || want == "any") && case.exact {
                        let inputs = mk_inputs(&case, seed % 7);
                        let t = plain_c.get_main_graph().unwrap().get_output_node().unwrap().get_type().unwrap();
                        let m = t.get_scalar_type().get_modulus();
                        let res: Result<(Vec<u64>, Vec<u64>)> = (|| {
                            let expect = random_evaluate(plain_c.get_main_graph()?, inputs.clone())?;
                            let got = random_evaluate(g.clone(), inputs.clone())?;
                            let e = flat(&expect, &t)?;
                            let o = if outs.is_empty() && is_private {
                                let sh = got.to_vector()?;
                                let mut acc = vec![0u64; e.len()];
                                for s in sh {
                                    let a = flat(&s, &t)?;
                                    if a.len() != acc.len() { return Err(ciphercore_base::runtime_error!("a share of the output has {} elements, the output type has {}", a.len(), acc.len())); }
                                    for i in 0..acc.len() { acc[i] = match m { Some(mm) => ((acc[i] as u128 + a[i] as u128) % mm as u128) as u64, None => acc[i].wrapping_add(a[i]) }; }
                                }
                                acc
                            } else { flat(&got, &t)? };
                            let red = |v: Vec<u64>| -> Vec<u64> { v.into_iter().map(|x| match m { Some(mm) => (x as u128 % mm) as u64, None => x }).collect() };
                            Ok((red(e), red(o)))
                        })();
                        let bad = match &res { Ok((e, o)) => e != o, Err(_) => true };
                        if bad {
                            return json!({"found": true, "routine": "party_sim", "property": "C01", "input": {"graph": case.name, "owners": format!("{:?}", owners), "output_parties": outs, "inputs": seed % 7},
                                "expected": match &res { Ok((e, _)) => json!(e), Err(_) => json!("the value of the source graph") },
                                "observed": match &res { Ok((_, o)) => json!(o), Err(e) => json!(format!("error: {}", e)) },
                                "what": "compiled graph evaluated with SimpleEvaluator vs. the source graph"});
                        }
                    }
                    if (want == "C03" || want == "any") && is_private {
                        // a party that is neither an output recipient nor an input owner must not receive a message that is
                        // constant over random tapes yet changes with the other parties' inputs
                        for q in 0..3u64 {
                            if outs.contains(&q) || owners.iter().any(|o| *o == IOStatus::Party(q)) { continue; }
                            // the view of q: every non-tuple node q can compute (knowledge analysis of the compiled graph), values it received included
                            let (_, ks) = knowledge_full(&g, &owners, &outs).unwrap();
                            let nodes = g.get_nodes();
                            let recv: std::collections::BTreeSet<usize> = nodes.iter().filter(|n| n.get_annotations().unwrap().iter().any(|a| matches!(a, NodeAnnotation::Send(_, r) if *r == q))).map(|n| n.get_id() as usize).collect();
                            let view: Vec<usize> = nodes.iter().filter(|n| { let id = n.get_id() as usize; let t = n.get_type().unwrap();
                                (t.is_scalar() || t.is_array()) && (recv.contains(&id) || matches!(&ks[id], K::Leaf(h, l) if h[q as usize] && !*l)) }).map(|n| n.get_id() as usize).collect();
                            let red = |x: u64, m: Option<u64>| -> u64 { match m { Some(mm) => x % mm, None => x } };
                            // per_input[choice][tape][k] = flattened value of view node k.  12 tapes: a one-bit value is constant over the tapes of all
                            // three choices by chance with probability 2^-33; every candidate is then re-checked on 30 further tapes (2^-90) before it is reported
                            let sample = |first_tape: u64, n_tapes: u64| -> Vec<Vec<Vec<Vec<u64>>>> {
                                let mut per_input = vec![];
                                for which in [1u64, 2u64, 6u64] {
                                    let inputs = mk_inputs_priv(&case, &owners, which);
                                    let mut runs = vec![];
                                    for tape in first_tape..first_tape + n_tapes {
                                        let mut sd = [0u8; 16]; sd[0] = tape as u8 + 1; sd[1] = which as u8; sd[2] = (seed & 0xff) as u8;
                                        let vals = run_nodes(&g, &inputs, sd).unwrap();
                                        runs.push(view.iter().map(|id| { let t = nodes[*id].get_type().unwrap(); flat(&vals[*id], &t).unwrap_or_default() }).collect::<Vec<_>>());
                                    }
                                    per_input.push(runs);
                                }
                                per_input
                            };
                            let per_input = sample(0, 12);
                            let confirm: std::cell::RefCell<Option<Vec<Vec<Vec<Vec<u64>>>>>> = std::cell::RefCell::new(None);
                            let moduli: Vec<Option<u64>> = view.iter().map(|id| nodes[*id].get_type().unwrap().get_scalar_type().get_modulus().and_then(|x| if x > u64::MAX as u128 { None } else { Some(x as u64) })).collect();
                            // a derived value leaks if it is the same for all random tapes and changes with the other parties' private inputs
                            let leaks = |f: &dyn Fn(&Vec<Vec<u64>>) -> Vec<u64>| -> bool {
                                let per: Vec<Vec<Vec<u64>>> = per_input.iter().map(|runs| runs.iter().map(|r| f(r)).collect()).collect();
                                let constant = per.iter().all(|runs| !runs[0].is_empty() && runs.iter().all(|r| *r == runs[0]));
                                if !(constant && per.iter().any(|runs| runs[0] != per[0][0])) { return false; }
                                if confirm.borrow().is_none() { *confirm.borrow_mut() = Some(sample(12, 30)); }
                                let c = confirm.borrow();
                                c.as_ref().unwrap().iter().enumerate().all(|(w, runs)| runs.iter().all(|r| f(r) == per[w][0]))
                            };
                            let report = |what: String, ids: Vec<usize>| json!({"found": true, "routine": "party_sim", "property": "C03",
                                "input": {"graph": case.name, "owners": format!("{:?}", owners), "output_parties": outs, "observer": q, "nodes": ids},
                                "observed": what, "expected": "whatever a party that is neither an input owner nor an output recipient can compute from its view is independent of the other parties' private inputs (masked by a value it cannot compute)",
                                "what": "values of the nodes of the real compiled graph that the observer can compute or receives (per-party knowledge analysis), evaluated node by node for 3 choices of the private inputs x 12 random tapes (+30 to confirm a candidate)"});
                            for k in 0..view.len() {
                                if leaks(&|r: &Vec<Vec<u64>>| r[k].clone()) {
                                    return report("a value in the observer's view is identical for 42 random tapes and changes with the other parties' private inputs".into(), vec![view[k]]);
                                }
                            }
                            // tape-dependent values only: a sum or difference of two of them must not cancel the masks
                            let varying: Vec<usize> = (0..view.len()).filter(|k| per_input.iter().any(|runs| runs.iter().any(|r| r[*k] != runs[0][*k]))).collect();
                            for (ai, a) in varying.iter().enumerate() { for b in varying.iter().skip(ai + 1) {
                                let (a, b) = (*a, *b);
                                if nodes[view[a]].get_type().unwrap() != nodes[view[b]].get_type().unwrap() { continue; }
                                let m = moduli[a];
                                if leaks(&|r: &Vec<Vec<u64>>| r[a].iter().zip(r[b].iter()).map(|(x, y)| red(x.wrapping_add(*y), m)).collect()) {
                                    return report("the SUM of two values in the observer's view is identical for 42 random tapes and changes with the other parties' private inputs: the observer unmasks private data".into(), vec![view[a], view[b]]);
                                }
                                if m != Some(2) && leaks(&|r: &Vec<Vec<u64>>| r[a].iter().zip(r[b].iter()).map(|(x, y)| red(x.wrapping_sub(*y).wrapping_add(m.unwrap_or(0)), m)).collect()) {
                                    return report("the DIFFERENCE of two values in the observer's view is identical for 42 random tapes and changes with the other parties' private inputs: the observer unmasks private data".into(), vec![view[a], view[b]]);
                                }
                            } }
                            // all three components of a sharing
                            let pos: std::collections::BTreeMap<usize, usize> = view.iter().enumerate().map(|(k, id)| (*id, k)).collect();
                            for n in nodes.iter() {
                                if !matches!(n.get_operation(), Operation::CreateTuple) { continue; }
                                let d: Vec<usize> = n.get_node_dependencies().iter().map(|x| x.get_id() as usize).collect();
                                if d.len() != 3 || !d.iter().all(|x| pos.contains_key(x)) { continue; }
                                let (a, b, c) = (pos[&d[0]], pos[&d[1]], pos[&d[2]]);
                                let t = nodes[d[0]].get_type().unwrap();
                                if nodes[d[1]].get_type().unwrap() != t || nodes[d[2]].get_type().unwrap() != t { continue; }
                                let m = moduli[a];
                                if leaks(&|r: &Vec<Vec<u64>>| (0..r[a].len()).map(|i| red(r[a][i].wrapping_add(r[b][i]).wrapping_add(r[c][i]), m)).collect()) {
                                    return report("the observer can compute all three shares of a sharing whose sum changes with the other parties' private inputs".into(), d);
                                }
                            }
                        }
                    }
                }
            } }
        }
        json!({"found": false, "routine": "party_sim", "tried": tried})
    }
}

// ---------------------------------------------------------------------------------------------
// C12: corrupted serialized contexts / values must give Err, never a panic
fn small_context_json() -> (u64, serde_json::Value) {
    let c = ciphercore_base::graphs::util::simple_context(|g| { let a = g.input(scalar_type(INT32))?; let b = g.input(scalar_type(INT32))?; a.add(b) }).unwrap();
    let s = serde_json::to_string(&c).unwrap();
    let outer: serde_json::Value = serde_json::from_str(&s).unwrap();
    let ver = outer["version"].as_u64().unwrap();
    let inner: serde_json::Value = serde_json::from_str(outer["data"].as_str().unwrap()).unwrap();
    (ver, inner)
}
fn try_load_context(ver: u64, inner_text: String) -> std::result::Result<bool, ()> {
    let outer = json!({"version": ver, "data": inner_text}).to_string();
    catch_unwind(AssertUnwindSafe(|| serde_json::from_str::<ciphercore_base::graphs::Context>(&outer).is_ok())).map_err(|_| ())
}
fn ctx_corrupt(which: &str) -> serde_json::Value {
    let (ver, inner) = small_context_json();
    let mut cands: Vec<(String, String)> = vec![];
    if which == "annotations" {
        for (field, val) in [("graphs_annotations", json!([[99, []]])), ("nodes_annotations", json!([[[0, 99], []]])), ("nodes_annotations", json!([[[99, 0], []]]))] {
            let mut m = inner.clone();
            m[field] = val.clone();
            cands.push((format!("inner payload with {} = {}", field, val), m.to_string()));
        }
    } else {
        cands.push(("inner payload is not JSON: \"x\"".to_owned(), "x".to_owned()));
        cands.push(("inner payload truncated".to_owned(), { let t = inner.to_string(); t[..t.len() / 2].to_owned() }));
        cands.push(("inner payload of the wrong shape: {}".to_owned(), "{}".to_owned()));
    }
    // sanity: the unmodified payload loads
    if try_load_context(ver, inner.to_string()) != Ok(true) { return json!({"found": false, "error": "baseline context does not round-trip"}); }
    for (what, text) in cands {
        if try_load_context(ver, text.clone()).is_err() {
            return json!({"found": true, "routine": format!("ctx_corrupt_{}", which), "property": "C12", "input": {"corruption": what, "version": ver, "data": text.chars().take(300).collect::<String>()},
                "expected": "Err(..) from serde_json::from_str::<Context>", "observed": "panic", "what": "deserializing a corrupted serialized context"});
        }
    }
    json!({"found": false, "routine": format!("ctx_corrupt_{}", which), "tried": 3})
}
fn value_corrupt() -> serde_json::Value {
    let v = Value::from_scalar(5, INT32).unwrap();
    let s = serde_json::to_string(&v).unwrap();
    let outer: serde_json::Value = serde_json::from_str(&s).unwrap();
    let ver = outer["version"].as_u64().unwrap();
    for text in ["x", "{}", "[1,2"] {
        let o = json!({"version": ver, "data": text}).to_string();
        if catch_unwind(AssertUnwindSafe(|| serde_json::from_str::<Value>(&o).is_ok())).is_err() {
            return json!({"found": true, "routine": "value_corrupt", "property": "C12", "input": {"version": ver, "data": text}, "expected": "Err(..) from serde_json::from_str::<Value>", "observed": "panic"});
        }
    }
    json!({"found": false, "routine": "value_corrupt", "tried": 3})
}

// C09/C05: compiling Truncate(2^k) of a private value with k >= width-1 must not panic
fn truncate2k_large_k() -> serde_json::Value {
    use ciphercore_base::inline::inline_ops::{InlineConfig, InlineMode};
    use ciphercore_base::mpc::mpc_compiler::{prepare_for_mpc_evaluation, IOStatus};
    for (st, name, w) in [(INT32, "i32", 32u32), (UINT8, "u8", 8), (INT64, "i64", 64)] {
        for k in [w - 2, w - 1, w, w + 5] {
            let r = catch_unwind(AssertUnwindSafe(|| {
                let c = ciphercore_base::graphs::util::simple_context(|g| { let a = g.input(scalar_type(st))?; a.truncate(1u128 << k) });
                match c { Err(_) => true, Ok(c) => { let _ = prepare_for_mpc_evaluation(&c, vec![vec![IOStatus::Party(0)]], vec![vec![IOStatus::Party(0)]],
                    InlineConfig { default_mode: InlineMode::Simple, ..Default::default() }); true } }
            }));
            if r.is_err() {
                return json!({"found": true, "routine": "truncate2k_large_k", "property": "C09", "input": {"scalar_type": name, "scale": format!("2^{}", k), "owner": "Party(0)"},
                    "expected": "Ok(..) or Err(..) from prepare_for_mpc_evaluation", "observed": "panic (arithmetic overflow in TruncateMPC2K::instantiate)", "what": "compiling g.truncate(x, 2^k) for a private x"});
            }
        }
    }
    json!({"found": false, "routine": "truncate2k_large_k", "tried": 12})
}

// C09: adding a GetSlice node with a huge step must give Ok or Err, never a panic
fn slice_overflow() -> serde_json::Value {
    use ciphercore_base::graphs::SliceElement;
    for (b, e, st) in [(Some(1i64), None, Some(i64::MAX)), (Some(-2i64), None, Some(i64::MIN)), (Some(1), Some(5), Some(i64::MAX - 1))] {
        let r = catch_unwind(AssertUnwindSafe(|| {
            let c = create_context().unwrap();
            let g = c.create_graph().unwrap();
            let a = g.input(array_type(vec![10], INT32)).unwrap();
            a.get_slice(vec![SliceElement::SubArray(b, e, st)]).is_ok()
        }));
        if r.is_err() {
            return json!({"found": true, "routine": "slice_overflow", "property": "C09", "input": {"shape": [10], "slice": format!("SubArray({:?}, {:?}, {:?})", b, e, st)},
                "expected": "Ok(node) or Err(..) when the node is added", "observed": "panic: attempt to add with overflow (slices.rs get_slice_shape_1d)", "what": "g.get_slice on an i32[10] input"});
        }
    }
    json!({"found": false, "routine": "slice_overflow", "tried": 3})
}

// C09: Concatenate of operands whose dimensions along the axis sum to 2^64 or more must be rejected when the node is added
fn concat_overflow() -> serde_json::Value {
    let cases: Vec<(Vec<u64>, &str)> = vec![(vec![1u64 << 63, 1u64 << 63], "2^63 + 2^63"), (vec![1u64 << 63, 1u64 << 63, 5], "2^63 + 2^63 + 5"), (vec![u64::MAX, 1], "(2^64-1) + 1")];
    for (dims, label) in cases {
        let r = catch_unwind(AssertUnwindSafe(|| -> std::result::Result<Option<String>, String> {
            let c = create_context().map_err(|e| e.to_string())?;
            let g = c.create_graph().map_err(|e| e.to_string())?;
            let mut ins = vec![];
            for d in &dims { ins.push(g.zeros(array_type(vec![*d], BIT)).map_err(|e| e.to_string())?); }
            match g.concatenate(ins, 0) { Ok(n) => Ok(Some(format!("{}", n.get_type().map_err(|e| e.to_string())?))), Err(_) => Ok(None) }
        }));
        match r {
            Err(_) => return json!({"found": true, "routine": "concat_overflow", "property": "C09", "input": {"operand_shapes": dims.iter().map(|d| format!("[{}]", d)).collect::<Vec<_>>(), "axis": 0, "sum": label},
                "expected": "Err(..) when the node is added", "observed": "panic: attempt to add with overflow (type_inference.rs, Concatenate arm)", "what": "g.concatenate on g.zeros(bit[d]) operands"}),
            Ok(Ok(Some(t))) => return json!({"found": true, "routine": "concat_overflow", "property": "C09", "input": {"operand_shapes": dims.iter().map(|d| format!("[{}]", d)).collect::<Vec<_>>(), "axis": 0, "sum": label},
                "expected": "Err(..) when the node is added", "observed": format!("node accepted with the wrapped-around type {}", t), "what": "g.concatenate on g.zeros(bit[d]) operands"}),
            _ => {}
        }
    }
    json!({"found": false, "routine": "concat_overflow", "tried": 3})
}

// C09: ill-typed nodes are rejected when they are added (Err), neither accepted nor a panic
fn typing_rejects() -> serde_json::Value {
    type B = Box<dyn Fn(&Graph) -> Result<ciphercore_base::graphs::Node>>;
    let a = |g: &Graph, sh: Vec<u64>| g.input(array_type(sh, INT32));
    let cases: Vec<(&str, B)> = vec![
        ("Concatenate([i32[2,3], i32[1,3]], axis 1): dimension 0 differs", Box::new(move |g| g.concatenate(vec![a(g, vec![2, 3])?, a(g, vec![1, 3])?], 1))),
        ("Concatenate([i32[2,3,4], i32[2,5,1]], axis 1): dimension 2 differs", Box::new(move |g| g.concatenate(vec![a(g, vec![2, 3, 4])?, a(g, vec![2, 5, 1])?], 1))),
        ("Concatenate([i32[2,3,4], i32[1,3,4], i32[2,3,4]], axis 2): dimension 0 differs", Box::new(move |g| g.concatenate(vec![a(g, vec![2, 3, 4])?, a(g, vec![1, 3, 4])?, a(g, vec![2, 3, 4])?], 2))),
        ("Concatenate([i32[2,3], i32[2,3]], axis 2): axis out of range", Box::new(move |g| g.concatenate(vec![a(g, vec![2, 3])?, a(g, vec![2, 3])?], 2))),
        ("Concatenate([i32[2,3], i32[2]], axis 0): ranks differ", Box::new(move |g| g.concatenate(vec![a(g, vec![2, 3])?, a(g, vec![2])?], 0))),
        ("Stack([i32[2], i32[3]], [2]): not broadcastable", Box::new(move |g| g.stack(vec![a(g, vec![2])?, a(g, vec![3])?], vec![2]))),
        ("Stack([i32[2]], [2]): wrong number of operands", Box::new(move |g| g.stack(vec![a(g, vec![2])?], vec![2]))),
        ("Get(i32[2,3], [2]): index out of range", Box::new(move |g| a(g, vec![2, 3])?.get(vec![2]))),
        ("Get(i32[2,3], [0,0,0]): too many indices", Box::new(move |g| a(g, vec![2, 3])?.get(vec![0, 0, 0]))),
        ("SegmentCumSum(i32[3,2], bit[3], first row i32 scalar): the first row must have the row shape [2]", Box::new(move |g| a(g, vec![3, 2])?.segment_cumsum(g.input(array_type(vec![3], BIT))?, g.input(scalar_type(INT32))?))),
        ("SegmentCumSum(i32[3,2], bit[3], first row i32[3]): wrong row shape", Box::new(move |g| a(g, vec![3, 2])?.segment_cumsum(g.input(array_type(vec![3], BIT))?, a(g, vec![3])?))),
        ("SegmentCumSum(i32[3], bit[2], first row i32): binary array of the wrong length", Box::new(move |g| a(g, vec![3])?.segment_cumsum(g.input(array_type(vec![2], BIT))?, g.input(scalar_type(INT32))?))),
        ("SegmentCumSum(i32[3], bit[3], first row i64): scalar types differ", Box::new(move |g| a(g, vec![3])?.segment_cumsum(g.input(array_type(vec![3], BIT))?, g.input(scalar_type(INT64))?))),
        ("Add(i32[2,3], i32[2]): not broadcastable", Box::new(move |g| a(g, vec![2, 3])?.add(a(g, vec![2])?))),
        ("Multiply(i32[4,1,3], i32[2,2]): not broadcastable", Box::new(move |g| a(g, vec![4, 1, 3])?.multiply(a(g, vec![2, 2])?))),
    ];
    let mut tried = 0;
    for (name, build) in cases {
        tried += 1;
        let r = catch_unwind(AssertUnwindSafe(|| { let c = create_context().unwrap(); let g = c.create_graph().unwrap(); build(&g).map(|n| format!("{}", n.get_type().unwrap())) }));
        match r {
            Err(_) => return json!({"found": true, "routine": "typing_rejects", "property": "C09", "input": {"node": name}, "expected": "Err(..) when the node is added", "observed": "panic"}),
            Ok(Ok(t)) => return json!({"found": true, "routine": "typing_rejects", "property": "C09", "input": {"node": name}, "expected": "Err(..) when the node is added", "observed": format!("node accepted with type {}", t)}),
            Ok(Err(_)) => {}
        }
    }
    json!({"found": false, "routine": "typing_rejects", "tried": tried})
}

// C10: elementwise arithmetic of the evaluator vs. wrapping reference arithmetic on special values of every width
fn arith_kernels(seed: u64) -> serde_json::Value {
    let mut rng = Rng(seed | 1);
    let sts = [UINT8, INT8, UINT16, INT16, UINT32, INT32, UINT64, INT64, UINT128, INT128];
    let mut tried = 0u64;
    for st in sts {
        let bits = st.size_in_bits();
        let mask: u128 = if bits == 128 { u128::MAX } else { (1u128 << bits) - 1 };
        let mut specials: Vec<u128> = vec![0, 1, 2, 3, mask, mask - 1, mask >> 1, (mask >> 1) + 1, 0x5555_5555_5555_5555_5555_5555_5555_5555 & mask, 0xAAAA_AAAA_AAAA_AAAA_AAAA_AAAA_AAAA_AAAA & mask];
        for _ in 0..6 { specials.push((((rng.next() as u128) << 64) | rng.next() as u128) & mask); }
        for op in ["add", "subtract", "multiply"] {
            let n = specials.len();
            let mut a = vec![]; let mut b = vec![];
            for x in &specials { for y in &specials { a.push(*x); b.push(*y); } }
            let t = array_type(vec![(n * n) as u64], st);
            let c = ciphercore_base::graphs::util::simple_context(|g| { let i = g.input(t.clone())?; let j = g.input(t.clone())?; match op { "add" => i.add(j), "subtract" => i.subtract(j), _ => i.multiply(j) } }).unwrap();
            let r = random_evaluate(c.get_main_graph().unwrap(), vec![Value::from_flattened_array(&a, st).unwrap(), Value::from_flattened_array(&b, st).unwrap()]).unwrap();
            let got = r.to_flattened_array_u128(t.clone()).unwrap();
            for k in 0..a.len() {
                tried += 1;
                let want = match op { "add" => a[k].wrapping_add(b[k]), "subtract" => a[k].wrapping_sub(b[k]), _ => a[k].wrapping_mul(b[k]) } & mask;
                if got[k] & mask != want {
                    return json!({"found": true, "routine": "arith_kernels", "property": "C10", "input": {"scalar_type": format!("{}", st), "op": op, "a": a[k].to_string(), "b": b[k].to_string()},
                        "expected": want.to_string(), "observed": (got[k] & mask).to_string(), "what": "SimpleEvaluator on elementwise arithmetic vs. wrapping arithmetic modulo 2^w"});
                }
            }
        }
    }
    json!({"found": false, "routine": "arith_kernels", "tried": tried})
}

// C10: elementwise Add/Subtract/Multiply/MixedMultiply with NumPy broadcasting (random broadcastable shape pairs, including equal sizes with different shapes) vs. an index-by-index reference
fn broadcast_ref(seed: u64) -> serde_json::Value {
    let mut rng = Rng(seed.wrapping_mul(0x9E37_79B9_7F4A_7C15) | 1);
    let sts = [BIT, UINT8, INT8, UINT16, INT32, UINT64, INT64, UINT128];
    let mut tried = 0u64;
    // the coordinates of flat index i in shape sh
    fn coords(mut i: u64, sh: &[u64]) -> Vec<u64> { let mut c = vec![0; sh.len()]; for k in (0..sh.len()).rev() { c[k] = i % sh[k]; i /= sh[k]; } c }
    // flat index in shape sh of the trailing coordinates of c, size-1 dimensions broadcast
    fn flat(c: &[u64], sh: &[u64]) -> usize { let off = c.len() - sh.len(); let mut r = 0u64; for k in 0..sh.len() { r = r * sh[k] + if sh[k] == 1 { 0 } else { c[off + k] }; } r as usize }
    for round in 0..60u64 {
        let rank = 1 + (rng.next() % 3) as usize;
        let res_shape: Vec<u64> = (0..rank).map(|_| 1 + rng.next() % 3).collect();
        let mk = |rng: &mut Rng, force_ones: bool| -> Vec<u64> {
            let drop = (rng.next() % (rank as u64)) as usize;   // operand may have fewer dimensions
            res_shape[drop..].iter().map(|d| if force_ones || rng.next() % 2 == 0 { *d } else { 1 }).collect()
        };
        let (mut s1, mut s2) = (mk(&mut rng, false), mk(&mut rng, false));
        if round % 4 == 0 && rank >= 2 {   // transposed singletons: equal sizes, different shapes
            s1 = res_shape.clone(); s2 = res_shape.clone(); s1[rank - 1] = 1; for k in 0..rank - 1 { s2[k] = 1; }
        }
        // the result shape must be the broadcast of the two: put every result dimension into at least one operand
        for k in 0..rank { let i1 = (k + s1.len()).checked_sub(rank); let i2 = (k + s2.len()).checked_sub(rank);
            let has = i1.map_or(false, |i| s1[i] == res_shape[k]) || i2.map_or(false, |i| s2[i] == res_shape[k]);
            if !has { if s1.len() < rank { s1 = res_shape.clone(); } else { s1[i1.unwrap()] = res_shape[k]; } } }
        if s1.len() < rank && s2.len() < rank { s1 = [vec![1; rank - s1.len()], s1].concat(); let _ = &s1; for k in 0..rank { if s1[k] == 1 { s1[k] = res_shape[k]; } } }
        let _ = mk(&mut rng, true);
        let st = sts[(rng.next() % sts.len() as u64) as usize];
        let bits = st.size_in_bits();
        let mask: u128 = if bits == 128 { u128::MAX } else { (1u128 << bits) - 1 };
        let n1: u64 = s1.iter().product(); let n2: u64 = s2.iter().product(); let nr: u64 = res_shape.iter().product();
        let a: Vec<u128> = (0..n1).map(|_| (((rng.next() as u128) << 64) | rng.next() as u128) & mask).collect();
        for op in ["add", "subtract", "multiply", "mixed_multiply"] {
            if op == "mixed_multiply" && st == BIT { continue; }
            let st2 = if op == "mixed_multiply" { BIT } else { st };
            let mask2: u128 = if st2 == BIT { 1 } else { mask };
            let b: Vec<u128> = (0..n2).map(|_| (((rng.next() as u128) << 64) | rng.next() as u128) & mask2).collect();
            let (t1, t2, tr) = (array_type(s1.clone(), st), array_type(s2.clone(), st2), array_type(res_shape.clone(), st));
            let c = match ciphercore_base::graphs::util::simple_context(|g| { let i = g.input(t1.clone())?; let j = g.input(t2.clone())?;
                match op { "add" => i.add(j), "subtract" => i.subtract(j), "multiply" => i.multiply(j), _ => i.mixed_multiply(j) } }) { Ok(c) => c, Err(_) => continue };
            let out_t = c.get_main_graph().unwrap().get_output_node().unwrap().get_type().unwrap();
            if out_t != tr { continue; }   // generator produced a pair whose broadcast is another shape: skip
            let r = random_evaluate(c.get_main_graph().unwrap(), vec![Value::from_flattened_array(&a, st).unwrap(), Value::from_flattened_array(&b, st2).unwrap()]);
            let input = json!({"scalar_type": format!("{}", st), "op": op, "shape1": s1, "shape2": s2, "result_shape": res_shape, "a": a.iter().map(|x| x.to_string()).collect::<Vec<_>>(), "b": b.iter().map(|x| x.to_string()).collect::<Vec<_>>()});
            let got = match r.and_then(|v| { v.check_type(tr.clone())?; v.to_flattened_array_u128(tr.clone()) }) { Ok(g) => g,
                Err(e) => return json!({"found": true, "routine": "broadcast_ref", "property": "C10", "input": input, "expected": "a value of the inferred type", "observed": format!("error: {}", e).chars().take(300).collect::<String>(), "what": "SimpleEvaluator on broadcast elementwise arithmetic"}) };
            if got.len() as u64 != nr {
                return json!({"found": true, "routine": "broadcast_ref", "property": "C10", "input": input, "expected": format!("{} elements", nr), "observed": format!("{} elements", got.len()), "what": "SimpleEvaluator on broadcast elementwise arithmetic: number of result elements"});
            }
            for i in 0..nr {
                tried += 1;
                let cd = coords(i, &res_shape);
                let (x, y) = (a[flat(&cd, &s1)], b[flat(&cd, &s2)]);
                let want = match op { "add" => x.wrapping_add(y), "subtract" => x.wrapping_sub(y), _ => x.wrapping_mul(y) } & mask;
                if got[i as usize] & mask != want {
                    return json!({"found": true, "routine": "broadcast_ref", "property": "C10", "input": input, "index": i, "expected": want.to_string(), "observed": (got[i as usize] & mask).to_string(),
                        "what": "SimpleEvaluator on elementwise arithmetic with NumPy broadcasting vs. index-by-index reference modulo 2^w"});
                }
            }
        }
    }
    json!({"found": false, "routine": "broadcast_ref", "tried": tried})
}

// C16: all comparison operations on all operand pairs of small widths (exhaustive for w <= 5, sampled up to 11), signed and unsigned, plus Min/Max
fn cmp_small_widths(seed: u64) -> serde_json::Value {
    use ciphercore_base::ops::comparisons::*;
    use ciphercore_base::ops::min_max::{Max, Min};
    let mut rng = Rng(seed | 1);
    let mut tried = 0u64;
    for w in 1u64..=11 {
        let n: u64 = if w <= 5 { 1 << w } else { 24 };
        let vals: Vec<u64> = if w <= 5 { (0..n).collect() } else { let mut v: Vec<u64> = vec![0, 1, (1 << w) - 1, 1 << (w - 1), (1 << (w - 1)) - 1, 2, 8, 12, 16]; while (v.len() as u64) < n { v.push(rng.next() % (1 << w)); } v };
        let n = vals.len() as u64;
        // operands as [n,1,w] and [1,n,w] bit arrays: every pair in one evaluation
        let bits = |v: &Vec<u64>| -> Vec<u8> { let mut o = vec![]; for x in v { for i in 0..w { o.push(((x >> i) & 1) as u8); } } o };
        let ta = array_type(vec![n, 1, w], BIT);
        let tb = array_type(vec![1, n, w], BIT);
        let va = Value::from_flattened_array(&bits(&vals), BIT).unwrap();
        let vb = va.clone();
        for signed in [false, true] {
            if signed && w < 2 { continue; }
            let ops: Vec<(&str, CustomOperation)> = vec![
                ("GreaterThan", CustomOperation::new(GreaterThan { signed_comparison: signed })), ("LessThan", CustomOperation::new(LessThan { signed_comparison: signed })),
                ("GreaterThanEqualTo", CustomOperation::new(GreaterThanEqualTo { signed_comparison: signed })), ("LessThanEqualTo", CustomOperation::new(LessThanEqualTo { signed_comparison: signed })),
                ("Equal", CustomOperation::new(Equal {})), ("NotEqual", CustomOperation::new(NotEqual {})),
                ("Min", CustomOperation::new(Min { signed_comparison: signed })), ("Max", CustomOperation::new(Max { signed_comparison: signed }))];
            for (name, op) in ops {
                let r = eval_custom(op, vec![ta.clone(), tb.clone()], vec![va.clone(), vb.clone()]);
                let r = match r { Ok(v) => v, Err(e) => return json!({"found": true, "routine": "cmp_small_widths", "property": "C16", "input": {"op": name, "width": w, "signed": signed}, "observed": format!("error: {}", e)}) };
                let is_mm = name == "Min" || name == "Max";
                let rt = if is_mm { array_type(vec![n, n, w], BIT) } else { array_type(vec![n, n], BIT) };
                let flat = r.to_flattened_array_u64(rt).unwrap();
                let sv = |x: u64| -> i64 { if signed && (x >> (w - 1)) & 1 == 1 { x as i64 - (1i64 << w) } else { x as i64 } };
                for (i, x) in vals.iter().enumerate() { for (j, y) in vals.iter().enumerate() {
                    tried += 1;
                    let (sx, sy) = (sv(*x), sv(*y));
                    let idx = i * n as usize + j;
                    let (want, got): (u64, u64) = if is_mm {
                        let wv = if name == "Min" { if sx <= sy { *x } else { *y } } else { if sx >= sy { *x } else { *y } };
                        let mut g = 0u64; for b in 0..w as usize { g |= flat[idx * w as usize + b] << b; }
                        (wv, g)
                    } else {
                        let wv = match name { "GreaterThan" => sx > sy, "LessThan" => sx < sy, "GreaterThanEqualTo" => sx >= sy, "LessThanEqualTo" => sx <= sy, "Equal" => sx == sy, _ => sx != sy };
                        (wv as u64, flat[idx])
                    };
                    if want != got {
                        return json!({"found": true, "routine": "cmp_small_widths", "property": "C16", "input": {"op": name, "width": w, "signed": signed, "x": x, "y": y},
                            "expected": want, "observed": got, "what": "comparison custom operation instantiated and evaluated by SimpleEvaluator vs. integer comparison"});
                    }
                } }
            }
        }
    }
    json!({"found": false, "routine": "cmp_small_widths", "tried": tried})
}

// C17: BinaryAdd instantiated and evaluated vs. native addition: all operand pairs for widths 1..8 (powers of two), samples and corners for 16..128
fn adder_small_widths(seed: u64) -> serde_json::Value {
    use ciphercore_base::ops::adder::BinaryAdd;
    let mut rng = Rng(seed | 1);
    let mut tried = 0u64;
    for w in [1u64, 2, 4, 8, 16, 32, 64, 128] {
        let mask: u128 = if w == 128 { u128::MAX } else { (1u128 << w) - 1 };
        let vals: Vec<u128> = if w <= 4 { (0..(1u128 << w)).collect() } else if w == 8 { (0..256u128).step_by(1).collect() } else {
            let mut v: Vec<u128> = vec![0, 1, 2, mask, mask - 1, 1u128 << (w - 1), (1u128 << (w - 1)) - 1, (1u128 << (w - 1)) + 1, mask / 3, mask - mask / 3];
            while v.len() < 24 { v.push((((rng.next() as u128) << 64) | rng.next() as u128) & mask); } v };
        let n = vals.len() as u64;
        let bits = |v: &Vec<u128>| -> Vec<u8> { let mut o = vec![]; for x in v { for i in 0..w { o.push(((x >> i) & 1) as u8); } } o };
        let ta = array_type(vec![n, 1, w], BIT);
        let tb = array_type(vec![1, n, w], BIT);
        let va = Value::from_flattened_array(&bits(&vals), BIT).unwrap();
        for ov in [false, true] {
            let r = catch_unwind(AssertUnwindSafe(|| eval_custom(CustomOperation::new(BinaryAdd { overflow_bit: ov }), vec![ta.clone(), tb.clone()], vec![va.clone(), va.clone()])));
            let r = match r { Ok(Ok(v)) => v, Ok(Err(e)) => return json!({"found": true, "routine": "adder_small_widths", "property": "C17", "input": {"width": w, "overflow_bit": ov}, "observed": format!("error: {}", e)}),
                Err(_) => return json!({"found": true, "routine": "adder_small_widths", "property": "C17", "input": {"width": w, "overflow_bit": ov}, "observed": "panic"}) };
            let st = array_type(vec![n, n, w], BIT);
            let (sum_flat, ov_flat) = if ov {
                let parts = r.to_vector().unwrap();
                (parts[0].to_flattened_array_u64(st).unwrap(), Some(parts[1].to_flattened_array_u64(array_type(vec![n, n, 1], BIT)).unwrap()))
            } else { (r.to_flattened_array_u64(st).unwrap(), None) };
            for (i, x) in vals.iter().enumerate() { for (j, y) in vals.iter().enumerate() {
                tried += 1;
                let idx = i * n as usize + j;
                let (full, c128) = x.overflowing_add(*y);
                let want = full & mask;
                let want_c: u64 = if w == 128 { c128 as u64 } else { ((full >> w) & 1) as u64 };
                let mut got = 0u128; for b in 0..w as usize { got |= (sum_flat[idx * w as usize + b] as u128) << b; }
                let got_c = ov_flat.as_ref().map(|f| f[idx]);
                if want != got || (ov && got_c != Some(want_c)) {
                    return json!({"found": true, "routine": "adder_small_widths", "property": "C17", "input": {"width": w, "overflow_bit": ov, "x": x.to_string(), "y": y.to_string()},
                        "expected": {"sum": want.to_string(), "carry_out": want_c}, "observed": {"sum": got.to_string(), "carry_out": got_c},
                        "what": "BinaryAdd instantiated and evaluated by SimpleEvaluator vs. native addition modulo 2^width"});
                }
            } }
        }
    }
    json!({"found": false, "routine": "adder_small_widths", "tried": tried})
}

// C17: Clip2K instantiated and evaluated vs. min(max(x,0),2^k) on signed w-bit inputs: all values for w <= 8, corners + random above
fn clip_small_widths(seed: u64) -> serde_json::Value {
    use ciphercore_base::ops::clip::Clip2K;
    let mut rng = Rng(seed | 1);
    let mut tried = 0u64;
    for w in [2u64, 3, 4, 5, 8, 16, 32, 64, 128] {
        let mask: u128 = if w == 128 { u128::MAX } else { (1u128 << w) - 1 };
        let vals: Vec<u128> = if w <= 8 { (0..(1u128 << w)).collect() } else {
            let mut v: Vec<u128> = vec![0, 1, 2, mask, mask - 1, 1u128 << (w - 1), (1u128 << (w - 1)) - 1, (1u128 << (w - 1)) + 1, mask / 3, mask - mask / 3];
            for k in 0..w - 1 { v.push(1u128 << k); v.push((1u128 << k) - 1); v.push((1u128 << k) + 1); v.push(mask - (1u128 << k) + 1); }
            while v.len() < 400 { let sh = rng.next() % w as u64; v.push(((((rng.next() as u128) << 64) | rng.next() as u128) & mask) >> sh); } v };
        let n = vals.len() as u64;
        let mut flat = vec![]; for x in &vals { for i in 0..w { flat.push(((x >> i) & 1) as u8); } }
        let va = Value::from_flattened_array(&flat, BIT).unwrap();
        let ks: Vec<u64> = if w <= 8 { (0..w - 1).collect() } else { vec![0, 1, w / 2, w - 3, w - 2] };
        for (shape, cnt) in [(vec![n, w], n), (vec![w], 1)] {
            for k in ks.iter().cloned() {
                let t = array_type(shape.clone(), BIT);
                let v = if cnt == 1 { Value::from_flattened_array(&flat[0..w as usize].to_vec().iter().map(|_| 0u8).collect::<Vec<u8>>(), BIT).unwrap() } else { va.clone() };
                let inp: Vec<u128> = if cnt == 1 { vec![0] } else { vals.clone() };
                let r = catch_unwind(AssertUnwindSafe(|| eval_custom(CustomOperation::new(Clip2K { k }), vec![t.clone()], vec![v.clone()])));
                let r = match r { Ok(Ok(v)) => v, Ok(Err(e)) => return json!({"found": true, "routine": "clip_small_widths", "property": "C17", "input": {"width": w, "k": k, "shape": shape}, "observed": format!("error: {}", e)}),
                    Err(_) => return json!({"found": true, "routine": "clip_small_widths", "property": "C17", "input": {"width": w, "k": k, "shape": shape}, "observed": "panic"}) };
                let out = r.to_flattened_array_u64(t.clone()).unwrap();
                for (i, x) in inp.iter().enumerate() {
                    tried += 1;
                    let neg = (x >> (w - 1)) & 1 == 1;
                    let want: u128 = if neg { 0 } else if *x >= (1u128 << k) { 1u128 << k } else { *x };
                    let mut got = 0u128; for b in 0..w as usize { got |= (out[i * w as usize + b] as u128) << b; }
                    if want != got {
                        return json!({"found": true, "routine": "clip_small_widths", "property": "C17", "input": {"width": w, "k": k, "x_bits_as_unsigned": x.to_string(), "shape": shape},
                            "expected": want.to_string(), "observed": got.to_string(),
                            "what": "Clip2K instantiated and evaluated by SimpleEvaluator vs. min(max(x,0),2^k) on the two's-complement reading of the input bits"});
                    }
                }
            }
        }
    }
    json!({"found": false, "routine": "clip_small_widths", "tried": tried})
}

// C15: PRF / PermutationFromPRF are pure functions of (key, counter, type): repeated requests from one evaluator, fresh evaluators and
// evaluators with other histories agree; permutations are valid; different counters differ
fn prf_purity(seed: u64) -> serde_json::Value {
    use ciphercore_base::evaluators::simple_evaluator::SimpleEvaluator;
    use ciphercore_base::evaluators::Evaluator;
    use ciphercore_base::graphs::util::simple_context;
    let mut rng = Rng(seed | 1);
    let mut tried = 0u64;
    let mut key = [0u8; 16]; for b in key.iter_mut() { *b = rng.next() as u8; }
    let r = catch_unwind(AssertUnwindSafe(|| -> Result<Option<serde_json::Value>> {
        for (n, iv) in [(1u64, 0u64), (2, 1), (5, 7), (64, 7), (300, 3), (1000, 11), (70000, 2)] {
            let c = simple_context(|g| { let k = g.input(array_type(vec![128], BIT))?; k.permutation_from_prf(iv, n) })?;
            let c2 = simple_context(|g| { let k = g.input(array_type(vec![128], BIT))?; k.permutation_from_prf(iv + 1, n) })?;
            let ev = |e: &mut SimpleEvaluator, c: &ciphercore_base::graphs::Context| -> Result<Vec<u64>> { e.preprocess(c)?; e.evaluate_context(c.clone(), vec![Value::from_bytes(key.to_vec())])?.to_flattened_array_u64(array_type(vec![n], UINT64)) };
            let mut e1 = SimpleEvaluator::new(None)?;
            let a = ev(&mut e1, &c)?; let b = ev(&mut e1, &c)?; let _o = ev(&mut e1, &c2)?; let d = ev(&mut e1, &c)?;
            let mut e2 = SimpleEvaluator::new(None)?; let _o2 = ev(&mut e2, &c2)?; let f = ev(&mut e2, &c)?;
            tried += 4;
            let mut sorted = a.clone(); sorted.sort_unstable();
            if sorted != (0..n).collect::<Vec<u64>>() { return Ok(Some(json!({"found": true, "routine": "prf_purity", "property": "C15", "input": {"op": "PermutationFromPRF", "n": n, "counter": iv}, "observed": "not a permutation of 0..n"}))); }
            if a != b || a != d || a != f {
                return Ok(Some(json!({"found": true, "routine": "prf_purity", "property": "C15", "input": {"op": "PermutationFromPRF", "n": n, "counter": iv, "key": key.to_vec()},
                    "observed": {"first": a.iter().take(8).collect::<Vec<_>>(), "repeated": b.iter().take(8).collect::<Vec<_>>(), "after_other_counter": d.iter().take(8).collect::<Vec<_>>(), "other_evaluator": f.iter().take(8).collect::<Vec<_>>()},
                    "what": "the same (key, counter, n) requested again from the same / another SimpleEvaluator gives a different permutation"})));
            }
        }
        for t in [scalar_type(UINT64), array_type(vec![5], BIT), array_type(vec![3, 2], INT32), tuple_type(vec![scalar_type(UINT8), array_type(vec![2], UINT128)])] {
            let c = simple_context(|g| { let k = g.input(array_type(vec![128], BIT))?; k.prf(5, t.clone()) })?;
            let ev = |e: &mut SimpleEvaluator| -> Result<Value> { e.preprocess(&c)?; e.evaluate_context(c.clone(), vec![Value::from_bytes(key.to_vec())]) };
            let mut e1 = SimpleEvaluator::new(None)?; let a = ev(&mut e1)?; let b = ev(&mut e1)?;
            let mut e2 = SimpleEvaluator::new(Some([7u8; 16]))?; let d = ev(&mut e2)?;
            tried += 3;
            if a != b || a != d { return Ok(Some(json!({"found": true, "routine": "prf_purity", "property": "C15", "input": {"op": "PRF", "type": format!("{}", t), "counter": 5}, "what": "PRF output differs between repeated / separate evaluations"}))); }
            if !a.check_type(t.clone())? { return Ok(Some(json!({"found": true, "routine": "prf_purity", "property": "C15", "input": {"op": "PRF", "type": format!("{}", t)}, "what": "PRF output is not a value of the requested type"}))); }
        }
        // related keys in ONE evaluator instance: keys that share a prefix / suffix / differ in one bit must each give what they give alone, in either order
        for (what, k2) in [("same first half", { let mut k = key; for b in k[8..].iter_mut() { *b ^= 0x5a; } k }), ("same second half", { let mut k = key; for b in k[..8].iter_mut() { *b ^= 0xa5; } k }), ("last bit flipped", { let mut k = key; k[15] ^= 0x80; k }), ("first bit flipped", { let mut k = key; k[0] ^= 1; k })] {
            let t = array_type(vec![4], UINT64);
            let c = simple_context(|g| { let k = g.input(array_type(vec![128], BIT))?; k.prf(9, t.clone()) })?;
            let cp = simple_context(|g| { let k = g.input(array_type(vec![128], BIT))?; k.permutation_from_prf(9, 50) })?;
            for ctx in [&c, &cp] {
                let ev = |e: &mut SimpleEvaluator, k: &[u8; 16]| -> Result<Value> { e.preprocess(ctx)?; e.evaluate_context((*ctx).clone(), vec![Value::from_bytes(k.to_vec())]) };
                let alone1 = ev(&mut SimpleEvaluator::new(None)?, &key)?; let alone2 = ev(&mut SimpleEvaluator::new(None)?, &k2)?;
                let mut e = SimpleEvaluator::new(None)?; let a1 = ev(&mut e, &key)?; let a2 = ev(&mut e, &k2)?;
                let mut f = SimpleEvaluator::new(None)?; let b2 = ev(&mut f, &k2)?; let b1 = ev(&mut f, &key)?;
                tried += 6;
                if a1 != alone1 || b1 != alone1 || a2 != alone2 || b2 != alone2 {
                    return Ok(Some(json!({"found": true, "routine": "prf_purity", "property": "C15", "input": {"key1": key.to_vec(), "key2": k2.to_vec(), "relation": what, "counter": 9},
                        "what": "the PRF value for a key depends on which other key was evaluated earlier in the same evaluator instance"})));
                }
                if alone1 == alone2 { return Ok(Some(json!({"found": true, "routine": "prf_purity", "property": "C15", "input": {"key1": key.to_vec(), "key2": k2.to_vec(), "relation": what}, "what": "two different keys give the same PRF value"}))); }
            }
        }
        Ok(None)
    }));
    match r { Ok(Ok(Some(v))) => v, Ok(Ok(None)) => json!({"found": false, "routine": "prf_purity", "tried": tried}),
        Ok(Err(e)) => json!({"found": false, "routine": "prf_purity", "error": e.to_string()}), Err(_) => json!({"found": true, "routine": "prf_purity", "property": "C15", "observed": "panic"}) }
}

// C04: the PRF / PermutationFromPRF counters of compiled contexts are pairwise distinct: after prepare_for_mpc_evaluation and after the optimiser
// (compile_context); graphs that use the same protocol body several times (two truncations, two conversions, a comparison inside a product chain)
fn prf_counters_compiled(_seed: u64) -> serde_json::Value {
    use ciphercore_base::evaluators::simple_evaluator::SimpleEvaluator;
    use ciphercore_base::graphs::util::simple_context;
    use ciphercore_base::graphs::Operation;
    use ciphercore_base::inline::inline_ops::{InlineConfig, InlineMode};
    use ciphercore_base::mpc::mpc_compiler::{compile_context, IOStatus};
    let t = array_type(vec![4], INT32);
    let cases: Vec<(&str, Box<dyn Fn(&Graph, &[ciphercore_base::graphs::Node]) -> Result<ciphercore_base::graphs::Node>>)> = vec![
        ("a.truncate(4) + b.truncate(4)", Box::new(|_g, i| i[0].truncate(4)?.add(i[1].truncate(4)?))),
        ("b2a(a2b(a) AND a2b(b))", Box::new(|_g, i| i[0].a2b()?.multiply(i[1].a2b()?)?.b2a(INT32))),
        ("a*b*a*b", Box::new(|_g, i| i[0].multiply(i[1].clone())?.multiply(i[0].clone())?.multiply(i[1].clone()))),
        ("mixed_multiply(a, a2b(b)[bit 0]) + mixed_multiply(b, a2b(a)[bit 0])", Box::new(|_g, i| {
            let b0 = i[1].a2b()?.get_slice(vec![ciphercore_base::graphs::SliceElement::Ellipsis, ciphercore_base::graphs::SliceElement::SingleIndex(0)])?;
            let a0 = i[0].a2b()?.get_slice(vec![ciphercore_base::graphs::SliceElement::Ellipsis, ciphercore_base::graphs::SliceElement::SingleIndex(0)])?;
            i[0].mixed_multiply(b0)?.add(i[1].mixed_multiply(a0)?) })),
    ];
    let mut tried = 0u64;
    let dup = |g: &Graph| -> Option<(u64, usize)> {
        let mut seen = std::collections::BTreeMap::new();
        for n in g.get_nodes() { match n.get_operation() { Operation::PRF(iv, _) | Operation::PermutationFromPRF(iv, _) => { *seen.entry(iv).or_insert(0usize) += 1; } _ => {} } }
        seen.into_iter().find(|(_, c)| *c > 1)
    };
    for (name, build) in cases.iter() {
        for owners in [vec![IOStatus::Party(0), IOStatus::Party(1)], vec![IOStatus::Party(2), IOStatus::Public], vec![IOStatus::Shared, IOStatus::Party(1)]] {
            tried += 1;
            let tt = t.clone();
            let c = match simple_context(|g| { let a = g.input(tt.clone())?; let b = g.input(tt.clone())?; build(g, &[a, b]) }) { Ok(c) => c, Err(e) => return json!({"found": false, "routine": "prf_counters_compiled", "error": e.to_string()}) };
            let r = catch_unwind(AssertUnwindSafe(|| -> Result<Option<(&str, u64, usize, usize)>> {
                let (_ctx, g) = compile_simple(&c, owners.clone(), vec![IOStatus::Party(0)])?;
                if let Some((iv, n)) = dup(&g) { return Ok(Some(("prepare_for_mpc_evaluation", iv, n, g.get_nodes().len()))); }
                let full = compile_context(c.clone(), owners.clone(), vec![IOStatus::Party(0)], InlineConfig { default_mode: InlineMode::Simple, ..Default::default() }, || SimpleEvaluator::new(None))?;
                let g2 = full.get_context().get_main_graph()?;
                if let Some((iv, n)) = dup(&g2) { return Ok(Some(("compile_context (after the optimiser)", iv, n, g2.get_nodes().len()))); }
                Ok(None)
            }));
            match r {
                Ok(Ok(None)) => {}
                Ok(Ok(Some((stage, iv, n, total)))) => return json!({"found": true, "routine": "prf_counters_compiled", "property": "C04", "input": {"graph": name, "type": "i32[4]", "owners": format!("{:?}", owners), "stage": stage},
                    "observed": format!("counter {} is carried by {} distinct PRF nodes of the compiled graph ({} nodes)", iv, n, total), "expected": "pairwise distinct PRF counters",
                    "what": "PRF / PermutationFromPRF counters of the main graph of the context returned by the real compiler"}),
                Ok(Err(e)) => return json!({"found": true, "routine": "prf_counters_compiled", "property": "C04", "input": {"graph": name, "owners": format!("{:?}", owners)}, "observed": format!("compile error: {}", e)}),
                Err(_) => return json!({"found": true, "routine": "prf_counters_compiled", "property": "C04", "input": {"graph": name, "owners": format!("{:?}", owners)}, "observed": "panic"}),
            }
        }
    }
    json!({"found": false, "routine": "prf_counters_compiled", "tried": tried})
}

// C05 / C01 end to end: source graph compiled by prepare_for_mpc_evaluation and evaluated under random tapes
fn compile_simple(c: &ciphercore_base::graphs::Context, owners: Vec<ciphercore_base::mpc::mpc_compiler::IOStatus>, outs: Vec<ciphercore_base::mpc::mpc_compiler::IOStatus>) -> Result<(ciphercore_base::graphs::Context, Graph)> {
    use ciphercore_base::inline::inline_ops::{InlineConfig, InlineMode};
    use ciphercore_base::mpc::mpc_compiler::prepare_for_mpc_evaluation;
    let m = prepare_for_mpc_evaluation(c, vec![owners], vec![outs], InlineConfig { default_mode: InlineMode::Simple, ..Default::default() })?.get_context();
    let g = m.get_main_graph()?;
    Ok((m, g))
}
// Truncate(2^k) of a private value: floor or floor+1 for every k in 1..=width-2, inputs in the documented range incl. boundaries; non-power-of-two scales within one unit
fn truncate_compiled(seed: u64) -> serde_json::Value {
    use ciphercore_base::graphs::util::simple_context;
    use ciphercore_base::mpc::mpc_compiler::IOStatus;
    let _ = seed;
    let mut tried = 0u64;
    for (st, w, signed) in [(INT8, 8u32, true), (UINT8, 8, false), (INT16, 16, true), (INT32, 32, true), (UINT64, 64, false), (INT64, 64, true)] {
        let lo: i128 = if signed { -(1i128 << (w - 2)) } else { 0 };
        let hi: i128 = if signed { (1i128 << (w - 2)) - 1 } else { (1i128 << (w - 1)) - 1 };
        let inputs: Vec<i128> = vec![lo, lo + 1, -1, 0, 1, hi - 1, hi, hi / 3, lo / 3].into_iter().filter(|x| *x >= lo && *x <= hi).collect();
        let t = array_type(vec![inputs.len() as u64], st);
        let raw: Vec<u64> = inputs.iter().map(|x| *x as i64 as u64).collect();
        let v = Value::from_flattened_array(&raw, st).unwrap();
        let mut scales: Vec<u128> = vec![]; for k in [1, 2, w - 3, w - 2] { if k >= 1 && k <= w - 2 && !scales.contains(&(1u128 << k)) { scales.push(1u128 << k); } }
        if signed { scales.push(3); scales.push(10); }
        for scale in scales {
            let p2 = scale.is_power_of_two();
            let r = catch_unwind(AssertUnwindSafe(|| -> Result<Option<serde_json::Value>> {
                let c = simple_context(|g| { let i = g.input(t.clone())?; g.truncate(i, scale) })?;
                let (_keep, g) = compile_simple(&c, vec![IOStatus::Party(0)], vec![IOStatus::Party(1)])?;
                let reps = if p2 { 40 } else { 10 };
                for _ in 0..reps {
                    let out = random_evaluate(g.clone(), vec![v.clone()])?.to_flattened_array_u64(t.clone())?;
                    for (x, y) in inputs.iter().zip(out.iter()) {
                        tried += 1;
                        let y: i128 = if signed { let sh = 64 - w; (((*y as i64) << sh) >> sh) as i128 } else { (*y & (u64::MAX >> (64 - w))) as i128 };
                        // general divisor: plaintext quotient +-1, APART FROM the documented wrap-around event (the two share groups x0 and x1+x2 are truncated separately as signed numbers,
                        // so their sum may be off by one modulus: (x + k*2^w)/scale, k in {-1, 1}); its probability ~ |x| / 2^(w-1) is negligible only for wide types, so for
                        // w < 32 the wrapped outcomes are accepted (with one more unit of rounding slack) - flagging them would demand more than C05 states
                        let ok = if p2 { let f = x.div_euclid(scale as i128); y == f || y == f + 1 } else if x.abs() < (1i128 << (w / 2)) {
                            let m = 1i128 << w; let red = |v: i128| -> i128 { let r = v.rem_euclid(m); if signed && r >= m / 2 { r - m } else { r } };
                            (y - x / scale as i128).abs() <= 1 || (w < 32 && [-1i128, 1].iter().any(|k| { let q = (x + k * m) / scale as i128; (-2..=2).any(|e| red(q + e) == y) }))
                        } else { true };
                        if !ok { return Ok(Some(json!({"found": true, "routine": "truncate_compiled", "property": "C05", "input": {"scalar_type": format!("{}", st), "scale": scale.to_string(), "x": x.to_string(), "owner": "party 0"},
                            "observed": y.to_string(), "expected": if p2 { "floor(x/2^k) or floor(x/2^k)+1" } else { "plaintext quotient +-1" }, "what": "Truncate compiled by prepare_for_mpc_evaluation and evaluated with random tapes"}))); }
                    }
                }
                Ok(None)
            }));
            match r { Ok(Ok(Some(v))) => return v, Ok(Ok(None)) => {},
                Ok(Err(e)) => return json!({"found": true, "routine": "truncate_compiled", "property": "C05", "input": {"scalar_type": format!("{}", st), "scale": scale.to_string()}, "observed": format!("error: {}", e)}),
                Err(_) => return json!({"found": true, "routine": "truncate_compiled", "property": "C05", "input": {"scalar_type": format!("{}", st), "scale": scale.to_string()}, "observed": "panic"}) }
        }
    }
    json!({"found": false, "routine": "truncate_compiled", "tried": tried})
}

// C10: structural operations keep every element exactly, also for 128-bit scalar types and values beyond 2^64
fn structural_wide(seed: u64) -> serde_json::Value {
    use ciphercore_base::graphs::util::simple_context;
    use ciphercore_base::graphs::SliceElement;
    let mut rng = Rng(seed | 1);
    let mut tried = 0u64;
    for st in [UINT128, INT128, UINT64, INT32, BIT] {
        let m: Option<u128> = st.get_modulus();
        let red = |x: u128| -> u128 { match m { Some(mm) => x % mm, None => x } };
        let a: Vec<u128> = (0..6).map(|i| red((1u128 << 100) + 7 + i as u128 * ((1u128 << 70) + 1) + ((rng.next() as u128) << 64))).collect();   // shape [2,3]
        let b: Vec<u128> = (0..6).map(|i| red(u128::MAX - 5 - i as u128 * ((1u128 << 65) + 3))).collect();
        let ta = array_type(vec![2, 3], st);
        let z: Vec<u128> = (0..3).map(|i| red((1u128 << 90) + 11 * i as u128 + 1)).collect();   // shape [3]
        let tz = array_type(vec![3], st);
        let mk = |v: &Vec<u128>| Value::from_flattened_array(v, st).unwrap();
        let cases: Vec<(&str, Box<dyn Fn(&Graph, &[ciphercore_base::graphs::Node]) -> Result<ciphercore_base::graphs::Node>>, Vec<u128>, Type)> = vec![
            ("Get([1])", Box::new(|_g, i| i[0].get(vec![1])), a[3..6].to_vec(), array_type(vec![3], st)),
            ("GetSlice([.., 0:3:2])", Box::new(|_g, i| i[0].get_slice(vec![SliceElement::Ellipsis, SliceElement::SubArray(Some(0), Some(3), Some(2))])), vec![a[0], a[2], a[3], a[5]], array_type(vec![2, 2], st)),
            ("Stack([a, b], [2])", Box::new(|g, i| g.stack(vec![i[0].clone(), i[1].clone()], vec![2])), [a.clone(), b.clone()].concat(), array_type(vec![2, 2, 3], st)),
            ("Stack([a, z], [2]) with z of shape [3] broadcast to [2,3]", Box::new(|g, i| g.stack(vec![i[0].clone(), i[2].clone()], vec![2])), [a.clone(), z.clone(), z.clone()].concat(), array_type(vec![2, 2, 3], st)),
            ("Concatenate([a, b], 1)", Box::new(|g, i| g.concatenate(vec![i[0].clone(), i[1].clone()], 1)), [a[0..3].to_vec(), b[0..3].to_vec(), a[3..6].to_vec(), b[3..6].to_vec()].concat(), array_type(vec![2, 6], st)),
            ("Concatenate([a, b], 0)", Box::new(|g, i| g.concatenate(vec![i[0].clone(), i[1].clone()], 0)), [a.clone(), b.clone()].concat(), array_type(vec![4, 3], st)),
            ("VectorToArray(ArrayToVector(a))", Box::new(|_g, i| i[0].array_to_vector()?.vector_to_array()), a.clone(), array_type(vec![2, 3], st)),
            ("PermuteAxes(a, [1,0])", Box::new(|_g, i| i[0].permute_axes(vec![1, 0])), vec![a[0], a[3], a[1], a[4], a[2], a[5]], array_type(vec![3, 2], st)),
            ("Gather(a, [1,0], 0)", Box::new(|g, i| { let idx = g.constant(array_type(vec![2], UINT64), Value::from_flattened_array(&[1u64, 0], UINT64)?)?; i[0].gather(idx, 0) }), [a[3..6].to_vec(), a[0..3].to_vec()].concat(), array_type(vec![2, 3], st)),
        ];
        for (name, build, want, rt) in cases {
            tried += 1;
            let r = catch_unwind(AssertUnwindSafe(|| -> Result<Vec<u128>> {
                let c = simple_context(|g| { let x = g.input(ta.clone())?; let y = g.input(ta.clone())?; let w = g.input(tz.clone())?; build(g, &[x, y, w]) })?;
                let out = random_evaluate(c.get_main_graph()?, vec![mk(&a), mk(&b), mk(&z)])?;
                Ok(out.to_flattened_array_u128(rt.clone())?.into_iter().map(red).collect())
            }));
            let got = match r { Ok(Ok(v)) => v, Ok(Err(e)) => return json!({"found": true, "routine": "structural_wide", "property": "C10", "input": {"op": name, "scalar_type": format!("{}", st)}, "observed": format!("error: {}", e)}),
                Err(_) => return json!({"found": true, "routine": "structural_wide", "property": "C10", "input": {"op": name, "scalar_type": format!("{}", st)}, "observed": "panic"}) };
            if got != want {
                return json!({"found": true, "routine": "structural_wide", "property": "C10", "input": {"op": name, "scalar_type": format!("{}", st), "a (shape [2,3])": a.iter().map(|x| x.to_string()).collect::<Vec<_>>(), "b (shape [2,3])": b.iter().map(|x| x.to_string()).collect::<Vec<_>>()},
                    "expected": want.iter().map(|x| x.to_string()).collect::<Vec<_>>(), "observed": got.iter().map(|x| x.to_string()).collect::<Vec<_>>(), "what": "structural operation evaluated by SimpleEvaluator vs. the selected input elements"});
            }
        }
    }
    json!({"found": false, "routine": "structural_wide", "tried": tried})
}

// C01 (known finding): ApplyPermutation / ApplyInversePermutation with a permutation owned by a party: the compiler accepts the graph,
// shares the permutation additively and hands the shares to ApplyPermutationMPC, which reads them as a composition p0*p1*p2
fn private_permutation() -> serde_json::Value {
    use ciphercore_base::graphs::util::simple_context;
    use ciphercore_base::mpc::mpc_compiler::IOStatus;
    let mut tried = 0;
    for inverse in [false, true] {
        for (o0, o1) in [(IOStatus::Party(0), IOStatus::Party(1)), (IOStatus::Public, IOStatus::Party(1)), (IOStatus::Party(2), IOStatus::Party(2))] {
            tried += 1;
            let c = simple_context(|g| { let x = g.input(array_type(vec![4], INT32))?; let p = g.input(array_type(vec![4], UINT64))?; if inverse { x.apply_inverse_permutation(p) } else { x.apply_permutation(p) } }).unwrap();
            let (_keep, g) = match compile_simple(&c, vec![o0.clone(), o1.clone()], vec![IOStatus::Party(0)]) { Ok(x) => x, Err(_) => continue };   // rejected at compile time: fine
            let x = Value::from_flattened_array(&[10u64, 20, 30, 40], INT32).unwrap();
            let p = Value::from_flattened_array(&[1u64, 2, 3, 0], UINT64).unwrap();
            let want = random_evaluate(c.get_main_graph().unwrap(), vec![x.clone(), p.clone()]).unwrap().to_flattened_array_u64(array_type(vec![4], INT32)).unwrap();
            let got = catch_unwind(AssertUnwindSafe(|| random_evaluate(g.clone(), vec![x.clone(), p.clone()]).and_then(|v| v.to_flattened_array_u64(array_type(vec![4], INT32)))));
            let bad = match &got { Ok(Ok(v)) => *v != want, _ => true };
            if bad {
                return json!({"found": true, "routine": "private_permutation", "property": "C01",
                    "input": {"graph": if inverse { "apply_inverse_permutation(x: i32[4], p: u64[4])" } else { "apply_permutation(x: i32[4], p: u64[4])" }, "owners": format!("[{:?}, {:?}]", o0, o1), "output_parties": [0], "x": [10, 20, 30, 40], "p": [1, 2, 3, 0]},
                    "expected": want, "observed": match got { Ok(Ok(v)) => json!(v), Ok(Err(e)) => json!(format!("runtime error: {}", e)), Err(_) => json!("panic") },
                    "what": "graph accepted by prepare_for_mpc_evaluation; compiled graph evaluated with SimpleEvaluator vs. the source graph"});
            }
        }
    }
    json!({"found": false, "routine": "private_permutation", "tried": tried})
}

// C02 on the compiled Join (PSI) protocol: per-party knowledge analysis of the real compiled graph
fn psi_knowledge() -> serde_json::Value {
    use ciphercore_base::graphs::util::simple_context;
    use ciphercore_base::graphs::JoinType;
    use ciphercore_base::mpc::mpc_compiler::IOStatus;
    use ciphercore_base::type_inference::NULL_HEADER;
    use std::collections::HashMap;
    let t1 = named_tuple_type(vec![(NULL_HEADER.to_owned(), array_type(vec![4], BIT)), ("ID".to_owned(), array_type(vec![4], INT32)), ("A".to_owned(), array_type(vec![4], INT32))]);
    let t2 = named_tuple_type(vec![(NULL_HEADER.to_owned(), array_type(vec![3], BIT)), ("ID".to_owned(), array_type(vec![3], INT32)), ("B".to_owned(), array_type(vec![3], INT32))]);
    let mut tried = 0;
    for jt in [JoinType::Inner, JoinType::Left, JoinType::Union, JoinType::Full] {
        for (o0, o1) in [(IOStatus::Party(0), IOStatus::Party(1)), (IOStatus::Party(1), IOStatus::Public), (IOStatus::Shared, IOStatus::Party(2))] {
            for outs in [vec![], vec![0u64], vec![2u64, 1]] {
                tried += 1;
                let jt2 = jt.clone();
                let r = catch_unwind(AssertUnwindSafe(|| -> Result<Vec<String>> {
                    let c = simple_context(|g| { let a = g.input(t1.clone())?; let b = g.input(t2.clone())?; a.join(b, jt2.clone(), HashMap::from([("ID".to_owned(), "ID".to_owned())])) })?;
                    let owners = vec![o0.clone(), o1.clone()];
                    let (_keep, g) = compile_simple(&c, owners.clone(), outs.iter().map(|p| IOStatus::Party(*p)).collect())?;
                    party_sim::knowledge(&g, &owners, &outs)
                }));
                match r {
                    Ok(Ok(v)) if v.is_empty() => {}
                    Ok(Ok(v)) => return json!({"found": true, "routine": "psi_knowledge", "property": "C02", "input": {"graph": format!("join({:?}) of a 4-row and a 3-row table on ID", jt), "owners": format!("[{:?}, {:?}]", o0, o1), "output_parties": outs},
                        "observed": v.iter().take(6).collect::<Vec<_>>(), "n_problems": v.len(), "expected": "every Send sender holds the value; every share slot of a shared output is held by parties i and i-1", "what": "per-party knowledge analysis of the graph produced by prepare_for_mpc_evaluation"}),
                    Ok(Err(e)) => return json!({"found": false, "routine": "psi_knowledge", "error": e.to_string()}),
                    Err(_) => return json!({"found": false, "routine": "psi_knowledge", "error": "panic"}),
                }
            }
        }
    }
    json!({"found": false, "routine": "psi_knowledge", "tried": tried})
}

// developer aid: per-party knowledge analysis of further compiled protocols
fn protocol_knowledge() -> serde_json::Value {
    use ciphercore_base::graphs::util::simple_context;
    use ciphercore_base::mpc::mpc_compiler::IOStatus;
    type B = Box<dyn Fn(&Graph, &[ciphercore_base::graphs::Node]) -> Result<ciphercore_base::graphs::Node>>;
    let t = array_type(vec![4], INT32); let m = array_type(vec![2, 2], INT32);
    let nt = named_tuple_type(vec![("k".to_owned(), array_type(vec![5, 8], BIT)), ("v".to_owned(), array_type(vec![5], INT32))]);
    let cases: Vec<(&str, Vec<Type>, B)> = vec![
        ("sort(table by k)", vec![nt.clone(), nt.clone()], Box::new(|_g, i| i[0].sort("k".to_owned()))),
        ("matmul(a,b)", vec![m.clone(), m.clone()], Box::new(|_g, i| i[0].matmul(i[1].clone()))),
        ("gemm(a,b,t,f)", vec![m.clone(), m.clone()], Box::new(|_g, i| i[0].gemm(i[1].clone(), true, false))),
        ("dot(a,b)", vec![t.clone(), t.clone()], Box::new(|_g, i| i[0].dot(i[1].clone()))),
        ("a2b(a)*a2b(b) -> b2a", vec![t.clone(), t.clone()], Box::new(|_g, i| i[0].a2b()?.multiply(i[1].a2b()?)?.b2a(INT32))),
        ("truncate(a*b, 4)", vec![t.clone(), t.clone()], Box::new(|_g, i| i[0].multiply(i[1].clone())?.truncate(4))),
        ("sum(a*b)+a[0]", vec![t.clone(), t.clone()], Box::new(|_g, i| i[0].multiply(i[1].clone())?.sum(vec![0])?.add(i[0].get(vec![0])?))),
    ];
    let mut tried = 0;
    for (name, types, build) in cases {
        for (o0, o1) in [(IOStatus::Party(0), IOStatus::Party(1)), (IOStatus::Party(2), IOStatus::Public), (IOStatus::Shared, IOStatus::Party(1))] {
            for outs in [vec![], vec![1u64], vec![0u64, 2]] {
                tried += 1;
                let r = catch_unwind(AssertUnwindSafe(|| -> Result<Vec<String>> {
                    let c = simple_context(|g| { let mut ins = vec![]; for t in &types { ins.push(g.input(t.clone())?); } build(g, &ins) })?;
                    let owners = vec![o0.clone(), o1.clone()];
                    let (_keep, g) = compile_simple(&c, owners.clone(), outs.iter().map(|p| IOStatus::Party(*p)).collect())?;
                    party_sim::knowledge(&g, &owners, &outs)
                }));
                match r {
                    Ok(Ok(v)) if v.is_empty() => {}
                    Ok(Ok(v)) => return json!({"found": true, "routine": "protocol_knowledge", "property": "C02", "input": {"graph": name, "owners": format!("[{:?}, {:?}]", o0, o1), "output_parties": outs}, "observed": v.iter().take(6).collect::<Vec<_>>(), "n_problems": v.len()}),
                    Ok(Err(e)) => return json!({"found": false, "routine": "protocol_knowledge", "graph": name, "error": e.to_string()}),
                    Err(_) => return json!({"found": false, "routine": "protocol_knowledge", "graph": name, "error": "panic"}),
                }
            }
        }
    }
    json!({"found": false, "routine": "protocol_knowledge", "tried": tried})
}

// C13: the human-readable JSON form of a typed value parses back to an equal typed value (negative and 128-bit numbers included)
fn json_roundtrip(seed: u64) -> serde_json::Value {
    use ciphercore_base::typed_value::TypedValue;
    let mut rng = Rng(seed | 1);
    let mut tried = 0u64;
    for st in [BIT, UINT8, INT8, UINT16, INT16, UINT32, INT32, UINT64, INT64, UINT128, INT128] {
        let bits = st.size_in_bits();
        let mask: u128 = if bits == 128 { u128::MAX } else { (1u128 << bits) - 1 };
        let mut vals: Vec<u128> = vec![0, 1, mask, mask - (mask >> 1), mask >> 1, mask.wrapping_sub(4), 5 & mask, (u128::MAX - 4) & mask, (u128::MAX << 63) & mask, (1u128 << 64) & mask, ((1u128 << 100) + 7) & mask];
        for _ in 0..6 { vals.push((((rng.next() as u128) << 64) | rng.next() as u128) & mask); }
        let vals: Vec<u128> = vals.into_iter().map(|v| v.wrapping_add(0) & mask).collect();
        let mut tvs: Vec<TypedValue> = vec![];
        for v in &vals { tvs.push(TypedValue::new(scalar_type(st), Value::from_flattened_array(&[*v], st).unwrap()).unwrap()); }
        tvs.push(TypedValue::new(array_type(vec![vals.len() as u64], st), Value::from_flattened_array(&vals, st).unwrap()).unwrap());
        let inner = tvs[3].clone(); let arr = tvs[tvs.len() - 1].clone();
        tvs.push(TypedValue::new(tuple_type(vec![inner.t.clone(), arr.t.clone()]), Value::from_vector(vec![inner.value.clone(), arr.value.clone()])).unwrap());
        for tv in tvs {
            tried += 1;
            let r = catch_unwind(AssertUnwindSafe(|| -> std::result::Result<(String, Option<String>), String> {
                let s = serde_json::to_string(&tv).map_err(|e| e.to_string())?;
                let back: TypedValue = serde_json::from_str(&s).map_err(|e| format!("parse error: {} on {}", e, s))?;
                if back == tv { Ok((s, None)) } else { Ok((s.clone(), Some(serde_json::to_string(&back).unwrap_or_default()))) }
            }));
            match r {
                Ok(Ok((_, None))) => {}
                Ok(Ok((s, Some(b)))) => return json!({"found": true, "routine": "json_roundtrip", "property": "C13", "input": {"json": s}, "observed": {"parsed_back_as": b}, "expected": "an equal typed value", "what": "serde_json::to_string of a TypedValue, then from_str"}),
                Ok(Err(e)) => return json!({"found": true, "routine": "json_roundtrip", "property": "C13", "input": {"scalar_type": format!("{}", st)}, "observed": e}),
                Err(_) => return json!({"found": true, "routine": "json_roundtrip", "property": "C13", "input": {"scalar_type": format!("{}", st)}, "observed": "panic"}),
            }
        }
    }
    json!({"found": false, "routine": "json_roundtrip", "tried": tried})
}

// C18: apply a permutation then its inverse restores the array; inverse_permutation inverts; for every permutation of length <= 5 and 2-d data
fn perm_roundtrip(_seed: u64) -> serde_json::Value {
    use ciphercore_base::graphs::util::simple_context;
    fn perms(n: usize) -> Vec<Vec<u64>> { if n == 0 { return vec![vec![]]; } let mut out = vec![]; for p in perms(n - 1) { for pos in 0..n { let mut q = p.clone(); q.insert(pos, (n - 1) as u64); out.push(q); } } out }
    let mut tried = 0u64;
    for n in 1..=5usize {
        let t = array_type(vec![n as u64, 2], INT64); let tp = array_type(vec![n as u64], UINT64);
        let data: Vec<u64> = (0..2 * n as u64).map(|i| 1000 + 7 * i).collect();
        let c = simple_context(|g| { let x = g.input(t.clone())?; let p = g.input(tp.clone())?; let y = x.apply_permutation(p.clone())?; let z = y.apply_inverse_permutation(p.clone())?; let inv = p.inverse_permutation()?; let w = y.apply_permutation(inv.clone())?; g.create_tuple(vec![y, z, inv, w]) }).unwrap();
        for p in perms(n) {
            tried += 1;
            let r = catch_unwind(AssertUnwindSafe(|| random_evaluate(c.get_main_graph().unwrap(), vec![Value::from_flattened_array(&data, INT64).unwrap(), Value::from_flattened_array(&p, UINT64).unwrap()])));
            let v = match r { Ok(Ok(v)) => v.to_vector().unwrap(), _ => return json!({"found": true, "routine": "perm_roundtrip", "property": "C18", "input": {"permutation": p}, "observed": "error or panic"}) };
            let y = v[0].to_flattened_array_u64(t.clone()).unwrap(); let z = v[1].to_flattened_array_u64(t.clone()).unwrap(); let inv = v[2].to_flattened_array_u64(tp.clone()).unwrap(); let w = v[3].to_flattened_array_u64(t.clone()).unwrap();
            let want_y: Vec<u64> = (0..n).flat_map(|k| vec![data[2 * p[k] as usize], data[2 * p[k] as usize + 1]]).collect();
            let inv_ok = (0..n).all(|i| inv[p[i] as usize] == i as u64);
            if y != want_y || z != data || !inv_ok || w != data {
                return json!({"found": true, "routine": "perm_roundtrip", "property": "C18", "input": {"x (shape [n,2])": data, "permutation": p},
                    "observed": {"apply": y, "apply_then_inverse": z, "inverse_permutation": inv, "apply_then_apply_inverse_permutation": w}, "expected": {"apply": want_y, "apply_then_inverse": data}, "what": "ApplyPermutation / InversePermutation evaluated by SimpleEvaluator"});
            }
        }
    }
    json!({"found": false, "routine": "perm_roundtrip", "tried": tried})
}

// C18: Sort is a stable sort by key (plaintext evaluator vs. an independent reference, tables with more than 20 rows and duplicate keys included),
// and the compiled sort returns exactly the plaintext result for key widths that are / are not multiples of the radix chunk
fn sort_reference(seed: u64) -> serde_json::Value {
    use ciphercore_base::graphs::util::simple_context;
    use ciphercore_base::mpc::mpc_compiler::IOStatus;
    let mut rng = Rng(seed | 1);
    let mut tried = 0u64;
    let cfgs: Vec<(u64, u64, bool)> = vec![(1, 1, true), (2, 3, true), (6, 3, true), (7, 5, true), (5, 2, true), (5, 4, true), (6, 1, true), (48, 2, false), (25, 7, false), (64, 3, false), (33, 1, false)];
    for (n, b, compiled) in cfgs {
        let types = vec![array_type(vec![n, b], BIT), array_type(vec![n], UINT64), array_type(vec![n, 2], INT32)];
        let tt = types.clone();
        let c = match simple_context(|g| {
            let key = g.input(tt[0].clone())?; let id = g.input(tt[1].clone())?; let pair = g.input(tt[2].clone())?;
            let table = g.create_named_tuple(vec![("key".to_owned(), key), ("id".to_owned(), id), ("pair".to_owned(), pair)])?;
            let sorted = table.sort("key".to_owned())?;
            g.create_tuple(vec![sorted.named_tuple_get("key".to_owned())?, sorted.named_tuple_get("id".to_owned())?, sorted.named_tuple_get("pair".to_owned())?])
        }) { Ok(c) => c, Err(e) => return json!({"found": true, "routine": "sort_reference", "property": "C18", "input": {"rows": n, "key_bits": b}, "observed": format!("graph construction error: {}", e)}) };
        for rep in 0..2u64 {
            tried += 1;
            // few distinct keys: many duplicates
            let keys: Vec<u64> = (0..n).map(|_| { let span = if rep == 0 { std::cmp::min(1u64 << b, 4) } else { 1u64 << b }; (rng.next() % span) << (if rep == 0 { b.saturating_sub(2) } else { 0 }) & ((1u64 << b) - 1) }).collect();
            let mut key_bits = vec![]; for &v in &keys { for bit in (0..b).rev() { key_bits.push((v >> bit) & 1); } }
            let ids: Vec<u64> = (0..n).map(|i| 100 + i).collect();
            let pairs: Vec<u64> = (0..n).flat_map(|i| vec![i, 1000 - i]).collect();
            let inputs = vec![Value::from_flattened_array(&key_bits, BIT).unwrap(), Value::from_flattened_array(&ids, UINT64).unwrap(), Value::from_flattened_array(&pairs, INT32).unwrap()];
            let mut order: Vec<usize> = (0..n as usize).collect();
            // reference: insertion of rows one by one behind all rows with a key <= theirs (stable by construction, no library sort)
            let mut ord2: Vec<usize> = vec![]; for i in 0..n as usize { let mut pos = ord2.len(); while pos > 0 && keys[ord2[pos - 1]] > keys[i] { pos -= 1; } ord2.insert(pos, i); } order = ord2;
            let want_ids: Vec<u64> = order.iter().map(|&i| ids[i]).collect();
            let want_keys: Vec<u64> = order.iter().map(|&i| keys[i]).collect();
            let want_pairs: Vec<u64> = order.iter().flat_map(|&i| vec![pairs[2 * i], pairs[2 * i + 1]]).collect();
            let decode = |v: Value| -> Result<(Vec<u64>, Vec<u64>, Vec<u64>)> { let cols = v.to_vector()?; let kb = cols[0].to_flattened_array_u64(types[0].clone())?;
                let ks: Vec<u64> = (0..n as usize).map(|r| (0..b as usize).fold(0u64, |a, j| (a << 1) | kb[r * b as usize + j])).collect();
                Ok((ks, cols[1].to_flattened_array_u64(types[1].clone())?, cols[2].to_flattened_array_u64(types[2].clone())?)) };
            let plain = catch_unwind(AssertUnwindSafe(|| random_evaluate(c.get_main_graph().unwrap(), inputs.clone()).and_then(|v| decode(v))));
            let got = match plain { Ok(Ok(t)) => t, Ok(Err(e)) => return json!({"found": true, "routine": "sort_reference", "property": "C18", "input": {"rows": n, "key_bits": b, "keys": keys}, "observed": format!("plaintext sort: error: {}", e)}),
                Err(_) => return json!({"found": true, "routine": "sort_reference", "property": "C18", "input": {"rows": n, "key_bits": b, "keys": keys}, "observed": "plaintext sort: panic"}) };
            if got != (want_keys.clone(), want_ids.clone(), want_pairs.clone()) {
                return json!({"found": true, "routine": "sort_reference", "property": "C18", "input": {"rows": n, "key_bits": b, "keys": keys, "ids": ids},
                    "expected": {"keys": want_keys, "ids (rows with equal keys keep their input order)": want_ids}, "observed": {"keys": got.0, "ids": got.1},
                    "what": "Sort evaluated by SimpleEvaluator vs. a stable insertion of the rows by key (all columns compared)"});
            }
            if compiled && rep == 0 {
                let r = catch_unwind(AssertUnwindSafe(|| -> Result<(Vec<u64>, Vec<u64>, Vec<u64>)> {
                    let (_ctx, g) = compile_simple(&c, vec![IOStatus::Party(0), IOStatus::Party(1), IOStatus::Party(2)], vec![IOStatus::Party(0)])?;
                    decode(random_evaluate(g, inputs.clone())?) }));
                let sec = match r { Ok(Ok(t)) => t, Ok(Err(e)) => return json!({"found": true, "routine": "sort_reference", "property": "C18", "input": {"rows": n, "key_bits": b, "keys": keys, "columns_owned_by": "parties 0,1,2"}, "observed": format!("compiled sort: error: {}", e), "expected": "the plaintext result"}),
                    Err(_) => return json!({"found": true, "routine": "sort_reference", "property": "C18", "input": {"rows": n, "key_bits": b, "keys": keys}, "observed": "compiled sort: panic"}) };
                if sec != got {
                    return json!({"found": true, "routine": "sort_reference", "property": "C18", "input": {"rows": n, "key_bits": b, "keys": keys, "ids": ids, "columns_owned_by": "parties 0,1,2"},
                        "expected": {"keys": got.0, "ids": got.1}, "observed": {"keys": sec.0, "ids": sec.1}, "what": "graph compiled by prepare_for_mpc_evaluation and evaluated vs. the plaintext Sort"});
                }
            }
        }
    }
    // keys wider than a machine word (bit strings of 65 / 100 / 130 bits; rows that differ only in their LEADING bits or only in their LAST bit), plaintext sort
    for b in [65u64, 100, 130] {
        let n = 7u64;
        let types = vec![array_type(vec![n, b], BIT), array_type(vec![n], UINT64)];
        let tt = types.clone();
        let c = match simple_context(|g| { let key = g.input(tt[0].clone())?; let id = g.input(tt[1].clone())?;
            let table = g.create_named_tuple(vec![("key".to_owned(), key), ("id".to_owned(), id)])?; let sorted = table.sort("key".to_owned())?;
            g.create_tuple(vec![sorted.named_tuple_get("key".to_owned())?, sorted.named_tuple_get("id".to_owned())?]) }) { Ok(c) => c, Err(e) => return json!({"found": true, "routine": "sort_reference", "property": "C18", "input": {"rows": n, "key_bits": b}, "observed": format!("graph construction error: {}", e)}) };
        tried += 1;
        let low: Vec<u64> = (0..b - 3).map(|_| rng.next() & 1).collect();
        let heads: [[u64; 3]; 7] = [[1, 0, 1], [0, 1, 1], [1, 1, 0], [0, 0, 1], [1, 0, 1], [0, 1, 0], [0, 0, 1]];
        let rows: Vec<Vec<u64>> = (0..n as usize).map(|i| { let mut r = heads[i].to_vec(); r.extend(low.iter().cloned()); if i == 4 { let l = r.len(); r[l - 1] ^= 1; } r }).collect();
        let key_bits: Vec<u64> = rows.iter().flatten().cloned().collect();
        let ids: Vec<u64> = (0..n).map(|i| 100 + i).collect();
        let mut ord: Vec<usize> = vec![]; for i in 0..n as usize { let mut pos = ord.len(); while pos > 0 && rows[ord[pos - 1]] > rows[i] { pos -= 1; } ord.insert(pos, i); }
        let want: Vec<u64> = ord.iter().map(|&i| ids[i]).collect();
        let inputs = vec![Value::from_flattened_array(&key_bits, BIT).unwrap(), Value::from_flattened_array(&ids, UINT64).unwrap()];
        let r = catch_unwind(AssertUnwindSafe(|| random_evaluate(c.get_main_graph().unwrap(), inputs.clone()).and_then(|v| v.to_vector()?[1].to_flattened_array_u64(types[1].clone()))));
        let got = match r { Ok(Ok(t)) => t, Ok(Err(e)) => return json!({"found": true, "routine": "sort_reference", "property": "C18", "input": {"rows": n, "key_bits": b}, "observed": format!("plaintext sort: error: {}", e)}),
            Err(_) => return json!({"found": true, "routine": "sort_reference", "property": "C18", "input": {"rows": n, "key_bits": b}, "observed": "plaintext sort: panic"}) };
        if got != want {
            return json!({"found": true, "routine": "sort_reference", "property": "C18", "input": {"rows": n, "key_bits": b, "leading_bits_of_rows": heads.iter().map(|h| h.to_vec()).collect::<Vec<_>>(), "ids": ids},
                "expected": {"ids (lexicographic order of the whole bit strings, ties in input order)": want}, "observed": {"ids": got}, "what": "Sort by a bit-string key wider than 64 bits, SimpleEvaluator vs. stable insertion by lexicographic comparison"});
        }
    }
    // integer keys (SortByIntegerKey): numeric order, signed types included, ties in input order
    for (st, vals) in [(INT32, vec![5i64, -3, 7, -3, 0, -2147483648, 2147483647, 5]), (UINT8, vec![200, 3, 255, 0, 3, 128, 127, 200]), (INT64, vec![-1, i64::MIN, i64::MAX, 0, -1, 1, 0, 42]), (INT8, vec![-128, 127, -1, 0, 1, -1, 64, -64]), (BIT, vec![1, 0, 1, 1, 0, 0, 1, 0])] {
        tried += 1;
        let n = vals.len() as u64;
        let tt = named_tuple_type(vec![("k".to_owned(), array_type(vec![n], st)), ("id".to_owned(), array_type(vec![n], UINT64))]);
        let ids: Vec<u64> = (0..n).map(|i| 100 + i).collect();
        let enc: Vec<u64> = vals.iter().map(|&v| v as u64).collect();
        let input = Value::from_vector(vec![Value::from_flattened_array(&enc, st).unwrap(), Value::from_flattened_array(&ids, UINT64).unwrap()]);
        let mut ord: Vec<usize> = vec![]; for i in 0..n as usize { let mut pos = ord.len(); while pos > 0 && vals[ord[pos - 1]] > vals[i] { pos -= 1; } ord.insert(pos, i); }
        let want: Vec<u64> = ord.iter().map(|&i| ids[i]).collect();
        let r = catch_unwind(AssertUnwindSafe(|| eval_custom(CustomOperation::new(ciphercore_base::ops::integer_key_sort::SortByIntegerKey { key: "k".to_owned() }), vec![tt.clone()], vec![input.clone()])
            .and_then(|v| { let cols = v.to_vector()?; if !cols[0].check_type(array_type(vec![n], st))? { return Err(ciphercore_base::runtime_error!("the key column does not come back with its type")); }
                let ks: Vec<i64> = cols[0].to_flattened_array_i64(array_type(vec![n], st))?; let want_ks: Vec<i64> = { let mut w = vals.clone(); w.sort(); w };
                if st != BIT && ks != want_ks { return Err(ciphercore_base::runtime_error!("the key column comes back as {:?}", ks)); }
                cols[1].to_flattened_array_u64(array_type(vec![n], UINT64)) })));
        let got = match r { Ok(Ok(t)) => t, Ok(Err(e)) => return json!({"found": true, "routine": "sort_reference", "property": "C18", "input": {"key_type": format!("{}", st), "keys": vals}, "observed": format!("integer-key sort: error: {}", e)}),
            Err(_) => return json!({"found": true, "routine": "sort_reference", "property": "C18", "input": {"key_type": format!("{}", st), "keys": vals}, "observed": "integer-key sort: panic"}) };
        if got != want {
            return json!({"found": true, "routine": "sort_reference", "property": "C18", "input": {"key_type": format!("{}", st), "keys": vals, "ids": ids},
                "expected": {"ids (numeric order of the keys, ties in input order)": want}, "observed": {"ids": got}, "what": "SortByIntegerKey evaluated after instantiation vs. stable insertion by numeric value"});
        }
    }
    json!({"found": false, "routine": "sort_reference", "tried": tried})
}

// C07: inline_operations in the three modes vs. direct evaluation of Call / Iterate nodes: general, associative (non-commutative), empty and
// one-bit state bodies, vector lengths across the sqrt-trick / segment-tree switch; bodies that draw randomness get one Random node per copy
fn inline_equiv(seed: u64) -> serde_json::Value {
    use ciphercore_base::graphs::{create_context, Context, GraphAnnotation, Operation};
    use ciphercore_base::inline::inline_ops::{inline_operations, DepthOptimizationLevel, InlineConfig, InlineMode};
    let modes = || vec![("Simple", InlineMode::Simple), ("DepthOptimized(Default)", InlineMode::DepthOptimized(DepthOptimizationLevel::Default)), ("DepthOptimized(Extreme)", InlineMode::DepthOptimized(DepthOptimizationLevel::Extreme))];
    let mut rng = Rng(seed | 1);
    let mut tried = 0u64;
    // kind: 0 general state (i64 scalar), 1 associative 2x2 matrix product, 2 empty state, 3 one-bit state (bit[3]), 4 associative with empty per-step output
    let build = |kind: u32, len: u64| -> Result<(Context, Vec<Type>)> {
        let c = create_context()?;
        let (st, it): (Type, Type) = match kind { 0 => (scalar_type(INT64), scalar_type(INT64)), 1 | 4 => (array_type(vec![2, 2], UINT64), array_type(vec![2, 2], UINT64)),
            2 => (tuple_type(vec![]), scalar_type(INT64)), _ => (array_type(vec![3], BIT), array_type(vec![3], BIT)) };
        let body = c.create_graph()?;
        { let s = body.input(st.clone())?; let x = body.input(it.clone())?;
          let (ns, out) = match kind {
              0 => { let three = body.constant(scalar_type(INT64), Value::from_scalar(3, INT64)?)?; let ns = s.multiply(three)?.add(x.clone())?; (ns.clone(), ns.subtract(x.multiply(x.clone())?)?) }
              1 => { let ns = s.matmul(x)?; (ns.clone(), ns) }
              4 => { let ns = s.matmul(x)?; (ns, body.create_tuple(vec![])?) }
              2 => (s, x.multiply(x.clone())?),
              _ => { let ns = s.multiply(x.clone())?; (ns.clone(), ns.add(x)?) } };
          body.create_tuple(vec![ns, out])?.set_as_output()?;
          if kind == 1 || kind == 4 { body.add_annotation(GraphAnnotation::AssociativeOperation)?; }
          if kind == 3 { body.add_annotation(GraphAnnotation::OneBitState)?; }
          body.finalize()?; }
        let main = c.create_graph()?;
        let in_types = if kind == 2 { vec![vector_type(len, it.clone())] } else { vec![st.clone(), vector_type(len, it.clone())] };
        { let s0 = if kind == 2 { main.create_tuple(vec![])? } else { main.input(st.clone())? };
          let v = main.input(vector_type(len, it.clone()))?;
          main.iterate(body, s0, v)?.set_as_output()?; main.finalize()?; }
        c.set_main_graph(main)?; c.finalize()?;
        Ok((c, in_types))
    };
    let rand_val = |t: &Type, rng: &mut Rng| -> Value {
        fn go(t: &Type, rng: &mut Rng) -> Value { match t {
            Type::Vector(n, e) => Value::from_vector((0..*n).map(|_| go(e, rng)).collect()),
            Type::Tuple(v) => Value::from_vector(v.iter().map(|e| go(e, rng)).collect()),
            _ => { let st = t.get_scalar_type(); let n: u64 = if t.is_scalar() { 1 } else { t.get_shape().iter().product() }; let v: Vec<u64> = (0..n).map(|_| if st == BIT { rng.next() & 1 } else { rng.next() % 5 }).collect();
                if t.is_scalar() { Value::from_scalar(v[0], st).unwrap() } else { Value::from_flattened_array(&v, st).unwrap() } } } }
        go(t, rng) };
    for kind in 0..5u32 {
        for len in [0u64, 1, 2, 3, 5, 7, 15, 16, 17, 24, 33] {
            let (c, in_types) = match build(kind, len) { Ok(x) => x, Err(e) => return json!({"found": false, "routine": "inline_equiv", "error": format!("kind {} len {}: {}", kind, len, e)}) };
            for (mname, mode) in modes() {
                tried += 1;
                let name = ["general state s' = 3s + x, out = s' - x*x (i64)", "associative, non-commutative: 2x2 u64 matrix product, out = state", "empty state, out = x*x", "one-bit state bit[3]: s' = s AND x, out = s' XOR x", "associative 2x2 matrix product, empty per-step output"][kind as usize];
                let r = catch_unwind(AssertUnwindSafe(|| -> Result<Option<String>> {
                    let ic = inline_operations(&c, InlineConfig { default_mode: mode.clone(), ..Default::default() })?.get_context();
                    if ic.get_graphs().len() != 1 { return Ok(Some(format!("{} graphs left after inlining", ic.get_graphs().len()))); }
                    for _ in 0..3 {
                        let inputs: Vec<Value> = in_types.iter().map(|t| rand_val(t, &mut rng)).collect();
                        let a = random_evaluate(c.get_main_graph()?, inputs.clone())?; let b = random_evaluate(ic.get_main_graph()?, inputs.clone())?;
                        if a != b { return Ok(Some("the inlined graph computes a different value than direct evaluation of the Iterate node".to_owned())); }
                    }
                    Ok(None) }));
                let obs = match r { Ok(Ok(None)) => continue, Ok(Ok(Some(m))) => m, Ok(Err(e)) => format!("error: {}", e), Err(_) => "panic".to_owned() };
                return json!({"found": true, "routine": "inline_equiv", "property": "C07", "input": {"iterate_body": name, "vector_length": len, "mode": mname}, "observed": obs,
                    "what": "inline_operations vs. random_evaluate of the original context (3 random inputs)"});
            }
        }
    }
    // bodies that draw randomness: `copies` Calls of mask(x) = x + Random, and an Iterate of length `copies` over body (s, x) -> (s, x + Random), with and without state
    for copies in [1u64, 2, 3, 5] {
        for variant in 0..3u32 {
            let t = array_type(vec![4], UINT64);
            let r = catch_unwind(AssertUnwindSafe(|| -> Result<Context> {
                let c = create_context()?;
                let body = c.create_graph()?;
                let main = c.create_graph()?;
                if variant == 0 {
                    { let x = body.input(t.clone())?; let r = body.random(t.clone())?; x.add(r)?.set_as_output()?; body.finalize()?; }
                    let x = main.input(t.clone())?; let mut outs = vec![]; for _ in 0..copies { outs.push(main.call(body.clone(), vec![x.clone()])?); }
                    main.create_tuple(outs)?.set_as_output()?; main.finalize()?;
                } else {
                    let stt = if variant == 1 { t.clone() } else { tuple_type(vec![]) };
                    { let s = body.input(stt.clone())?; let x = body.input(t.clone())?; let r = body.random(t.clone())?; body.create_tuple(vec![s, x.add(r)?])?.set_as_output()?; body.finalize()?; }
                    let x = main.input(t.clone())?; let s0 = if variant == 1 { x.clone() } else { main.create_tuple(vec![])? };
                    let v = main.create_vector(t.clone(), (0..copies).map(|_| x.clone()).collect())?;
                    main.iterate(body, s0, v)?.tuple_get(1)?.set_as_output()?; main.finalize()?;
                }
                c.set_main_graph(main)?; c.finalize()?; Ok(c) }));
            let c = match r { Ok(Ok(c)) => c, _ => return json!({"found": false, "routine": "inline_equiv", "error": "could not build the random-body context"}) };
            for (mname, mode) in modes() {
                tried += 1;
                let vname = ["Calls of mask(x) = x + Random", "Iterate over body (s, x) -> (s, x + Random), array state", "Iterate over body ((), x) -> ((), x + Random), empty state"][variant as usize];
                let r = catch_unwind(AssertUnwindSafe(|| -> Result<Option<String>> {
                    let ic = inline_operations(&c, InlineConfig { default_mode: mode.clone(), ..Default::default() })?.get_context();
                    let g = ic.get_main_graph()?;
                    let nr = g.get_nodes().iter().filter(|n| matches!(n.get_operation(), Operation::Random(_))).count() as u64;
                    if nr != copies { return Ok(Some(format!("{} inlined copies of the body share {} Random node(s)", copies, nr))); }
                    let x = Value::from_flattened_array(&[1u64, 2, 3, 4], UINT64)?;
                    let out = random_evaluate(g, vec![x])?.to_vector()?;
                    for i in 0..out.len() { for j in i + 1..out.len() { if out[i] == out[j] { return Ok(Some(format!("copies {} and {} produce the same masked value: they share their randomness", i, j))); } } }
                    Ok(None) }));
                let obs = match r { Ok(Ok(None)) => continue, Ok(Ok(Some(m))) => m, Ok(Err(e)) => format!("error: {}", e), Err(_) => "panic".to_owned() };
                return json!({"found": true, "routine": "inline_equiv", "property": "C07", "input": {"context": vname, "copies": copies, "mode": mname}, "observed": obs,
                    "expected": "one Random node per inlined copy (direct evaluation draws fresh randomness each time the body is entered)", "what": "Random nodes of the graph returned by inline_operations, and its evaluation"});
            }
        }
    }
    json!({"found": false, "routine": "inline_equiv", "tried": tried})
}

// C10: Sum over axes, CumSum along an axis and PermuteAxes vs. an independent reference on multi-indices (all scalar widths incl. 128 bits)
fn reduce_ref(seed: u64) -> serde_json::Value {
    use ciphercore_base::graphs::util::simple_context;
    let mut rng = Rng(seed | 1);
    let mut tried = 0u64;
    let shapes: Vec<Vec<u64>> = vec![vec![5], vec![2, 3], vec![3, 1, 2], vec![2, 3, 4], vec![2, 2, 2, 3]];
    let unrank = |mut i: u64, sh: &Vec<u64>| -> Vec<u64> { let mut d = vec![0u64; sh.len()]; for k in (0..sh.len()).rev() { d[k] = i % sh[k]; i /= sh[k]; } d };
    let rank = |d: &Vec<u64>, sh: &Vec<u64>| -> u64 { let mut o = 0u64; for k in 0..sh.len() { o = o * sh[k] + d[k]; } o };
    for st in [BIT, UINT8, INT32, UINT64, INT128] {
        let m = st.get_modulus();
        let reduce = |x: u128| match m { Some(mm) => x % mm, None => x };
        for sh in &shapes {
            let n: u64 = sh.iter().product();
            let a: Vec<u128> = (0..n).map(|_| reduce(((rng.next() as u128) << 64) | rng.next() as u128)).collect();
            let t = array_type(sh.clone(), st);
            // every non-empty subset of axes for Sum, every axis for CumSum, two permutations
            let rk = sh.len();
            let mut ops: Vec<(String, Box<dyn Fn(&ciphercore_base::graphs::Node) -> Result<ciphercore_base::graphs::Node>>, Vec<u128>)> = vec![];
            for mask in 1u32..(1 << rk) {
                let axes: Vec<u64> = (0..rk as u64).filter(|k| mask >> k & 1 == 1).collect();
                let keep: Vec<usize> = (0..rk).filter(|k| mask >> k & 1 == 0).collect();
                let rsh: Vec<u64> = keep.iter().map(|k| sh[*k]).collect();
                let rn: u64 = rsh.iter().product();
                let mut want = vec![0u128; rn as usize];
                for i in 0..n { let d = unrank(i, sh); let kd: Vec<u64> = keep.iter().map(|k| d[*k]).collect(); let r = rank(&kd, &rsh) as usize; want[r] = reduce(want[r].wrapping_add(a[i as usize])); }
                let ax = axes.clone();
                ops.push((format!("sum(axes={:?})", axes), Box::new(move |x| x.sum(ax.clone())), want));
            }
            for axis in 0..rk {
                let mut want = a.clone();
                for i in 0..n { let d = unrank(i, sh); if d[axis] > 0 { let mut p = d.clone(); p[axis] -= 1; let j = rank(&p, sh) as usize; want[i as usize] = reduce(want[i as usize].wrapping_add(want[j])); } }
                ops.push((format!("cum_sum(axis={})", axis), Box::new(move |x| x.cum_sum(axis as u64)), want));
            }
            let perms: Vec<Vec<u64>> = vec![(0..rk as u64).rev().collect(), (0..rk as u64).map(|k| (k + 1) % rk as u64).collect()];
            for perm in perms {
                let osh: Vec<u64> = perm.iter().map(|p| sh[*p as usize]).collect();
                let mut want = vec![0u128; n as usize];
                for i in 0..n { let d = unrank(i, sh); let nd: Vec<u64> = perm.iter().map(|p| d[*p as usize]).collect(); want[rank(&nd, &osh) as usize] = a[i as usize]; }
                let pp = perm.clone();
                ops.push((format!("permute_axes({:?})", perm), Box::new(move |x| x.permute_axes(pp.clone())), want));
            }
            for (name, build, want) in ops {
                tried += 1;
                let r = catch_unwind(AssertUnwindSafe(|| -> Result<Vec<u128>> {
                    let c = simple_context(|g| { let x = g.input(t.clone())?; build(&x) })?;
                    let rt = c.get_main_graph()?.get_output_node()?.get_type()?;
                    let out = random_evaluate(c.get_main_graph()?, vec![Value::from_flattened_array(&a, st)?])?;
                    Ok(if rt.is_scalar() { vec![out.to_u128(st)?] } else { out.to_flattened_array_u128(rt)? }) }));
                let got: Vec<u128> = match r { Ok(Ok(x)) => x.into_iter().map(reduce).collect(),
                    Ok(Err(e)) => return json!({"found": true, "routine": "reduce_ref", "property": "C10", "input": {"op": name, "shape": sh, "scalar_type": format!("{}", st)}, "observed": format!("error: {}", e)}),
                    Err(_) => return json!({"found": true, "routine": "reduce_ref", "property": "C10", "input": {"op": name, "shape": sh, "scalar_type": format!("{}", st)}, "observed": "panic"}) };
                if got != want {
                    return json!({"found": true, "routine": "reduce_ref", "property": "C10", "input": {"op": name, "shape": sh, "scalar_type": format!("{}", st), "a": a.iter().map(|x| x.to_string()).collect::<Vec<_>>()},
                        "expected": want.iter().map(|x| x.to_string()).collect::<Vec<_>>(), "observed": got.iter().map(|x| x.to_string()).collect::<Vec<_>>(), "what": "SimpleEvaluator vs. a reference working on multi-indices"});
                }
            }
        }

        // Concatenate along every axis: operands that agree outside the axis
        for (base, axis, ns) in [(vec![2u64, 3], 0usize, vec![1u64, 2, 3]), (vec![2, 3], 1, vec![2, 1]), (vec![2, 2, 3], 1, vec![1, 3]), (vec![3, 2, 2], 2, vec![2, 1, 1]), (vec![4], 0, vec![1, 5])] {
            tried += 1;
            let shapes: Vec<Vec<u64>> = ns.iter().map(|n| { let mut s = base.clone(); s[axis] = *n; s }).collect();
            let datas: Vec<Vec<u128>> = shapes.iter().map(|s| { let n: u64 = s.iter().product(); (0..n).map(|_| reduce(((rng.next() as u128) << 64) | rng.next() as u128)).collect() }).collect();
            let mut rsh = base.clone(); rsh[axis] = ns.iter().sum();
            let rn: u64 = rsh.iter().product();
            let mut want = vec![0u128; rn as usize];
            let mut off = 0u64;
            for (s, d) in shapes.iter().zip(datas.iter()) { let n: u64 = s.iter().product(); for i in 0..n { let mut ix = unrank(i, s); ix[axis] += off; want[rank(&ix, &rsh) as usize] = d[i as usize]; } off += s[axis]; }
            let types: Vec<Type> = shapes.iter().map(|s| array_type(s.clone(), st)).collect();
            let r = catch_unwind(AssertUnwindSafe(|| -> Result<Vec<u128>> {
                let c = simple_context(|g| { let mut ins = vec![]; for t in &types { ins.push(g.input(t.clone())?); } g.concatenate(ins, axis as u64) })?;
                let rt = c.get_main_graph()?.get_output_node()?.get_type()?;
                let vals: Vec<Value> = datas.iter().map(|d| Value::from_flattened_array(d, st).unwrap()).collect();
                random_evaluate(c.get_main_graph()?, vals)?.to_flattened_array_u128(rt) }));
            let got: Vec<u128> = match r { Ok(Ok(x)) => x.into_iter().map(reduce).collect(),
                Ok(Err(e)) => return json!({"found": true, "routine": "reduce_ref", "property": "C10", "input": {"op": "concatenate", "shapes": shapes, "axis": axis, "scalar_type": format!("{}", st)}, "observed": format!("error: {}", e)}),
                Err(_) => return json!({"found": true, "routine": "reduce_ref", "property": "C10", "input": {"op": "concatenate", "shapes": shapes, "axis": axis, "scalar_type": format!("{}", st)}, "observed": "panic"}) };
            if got != want { return json!({"found": true, "routine": "reduce_ref", "property": "C10", "input": {"op": "concatenate", "shapes": shapes, "axis": axis, "scalar_type": format!("{}", st)},
                "expected": want.iter().map(|x| x.to_string()).collect::<Vec<_>>(), "observed": got.iter().map(|x| x.to_string()).collect::<Vec<_>>(), "what": "SimpleEvaluator vs. a reference working on multi-indices"}); }
        }
    }
    json!({"found": false, "routine": "reduce_ref", "tried": tried})
}

// C17: LongDivision vs. floored division (quotient * divisor + remainder == dividend, remainder has the divisor's sign), unsigned and signed,
// equal and different operand widths
fn longdiv_ref(seed: u64) -> serde_json::Value {
    use ciphercore_base::graphs::util::simple_context;
    use ciphercore_base::ops::long_division::LongDivision;
    let mut rng = Rng(seed | 1);
    let mut tried = 0u64;
    let types = |w: u32, signed: bool| -> ScalarType { match (w, signed) { (8, false) => UINT8, (8, true) => INT8, (16, false) => UINT16, (16, true) => INT16, (32, false) => UINT32, (32, true) => INT32, (64, false) => UINT64, _ => INT64 } };
    for signed in [false, true] {
        for (wa, wb) in [(8u32, 8u32), (16, 8), (8, 16), (16, 16), (32, 8), (64, 16)] {
            let (ta, tb) = (types(wa, signed), types(wb, signed));
            let n = 200usize;
            // operands: corners and random; divisors include values above 2^(wb-1) (unsigned) and the most negative value (signed)
            let ma: u128 = (1u128 << wa) - 1; let mb: u128 = (1u128 << wb) - 1;
            let mut av: Vec<u64> = vec![0, 1, 2, ma as u64, (ma / 2) as u64, (ma / 2 + 1) as u64, 300 & ma as u64, 1000 & ma as u64, 40000 & ma as u64];
            let mut bv: Vec<u64> = vec![1, 2, 3, mb as u64, (mb / 2) as u64, (mb / 2 + 1) as u64, (mb / 2 + 2) as u64, 200 & mb as u64, 129 & mb as u64];
            if let Ok(cs) = std::env::var("LD_CASE") { let p: Vec<u64> = cs.split(',').map(|x| x.parse().unwrap()).collect(); av = vec![p[0]; 2]; bv = vec![p[1]; 2]; } // developer aid
            while av.len() < n { av.push((rng.next() as u128 & ma) as u64 >> (rng.next() % wa as u64)); }
            while bv.len() < n { let b = (rng.next() as u128 & mb) as u64 >> (rng.next() % wb as u64); bv.push(if b == 0 { 1 } else { b }); }
            while bv.len() > av.len() { bv.pop(); } while av.len() > bv.len() { av.pop(); }
            if std::env::var("LD_CASE").is_ok() { av.truncate(2); bv.truncate(2); }
            let n = av.len() as u64;
            let r = catch_unwind(AssertUnwindSafe(|| -> Result<(Vec<u64>, Vec<u64>)> {
                let c = simple_context(|g| { let x = g.input(array_type(vec![n], ta))?; let y = g.input(array_type(vec![n], tb))?;
                    let r = g.custom_op(CustomOperation::new(LongDivision { signed }), vec![x.a2b()?, y.a2b()?])?;
                    g.create_tuple(vec![r.tuple_get(0)?.b2a(ta)?, r.tuple_get(1)?.b2a(tb)?]) })?;
                let m = run_instantiation_pass(c)?;
                let g = m.get_context().get_main_graph()?;
                let out = random_evaluate(g, vec![Value::from_flattened_array(&av, ta)?, Value::from_flattened_array(&bv, tb)?])?.to_vector()?;
                Ok((out[0].to_flattened_array_u64(array_type(vec![n], ta))?, out[1].to_flattened_array_u64(array_type(vec![n], tb))?)) }));
            let (q, rm) = match r { Ok(Ok(x)) => x, Ok(Err(e)) => return json!({"found": true, "routine": "longdiv_ref", "property": "C17", "input": {"signed": signed, "dividend_bits": wa, "divisor_bits": wb}, "observed": format!("error: {}", e)}),
                Err(_) => return json!({"found": true, "routine": "longdiv_ref", "property": "C17", "input": {"signed": signed, "dividend_bits": wa, "divisor_bits": wb}, "observed": "panic"}) };
            let sx = |v: u64, w: u32| -> i128 { let v = v as u128 & ((1u128 << w) - 1); if signed && (v >> (w - 1)) & 1 == 1 { v as i128 - (1i128 << w) } else { v as i128 } };
            for i in 0..n as usize {
                tried += 1;
                let (a, b) = (sx(av[i], wa), sx(bv[i], wb));
                let wq = a.div_euclid(b); let _ = wq;
                let fq = { let q0 = a / b; if (a % b != 0) && ((a < 0) != (b < 0)) { q0 - 1 } else { q0 } };      // floored quotient
                let fr = a - fq * b;
                let (gq, gr) = (sx(q[i], wa), sx(rm[i], wb));
                // the quotient may not fit the dividend's width only for MIN / -1; skip that one documented overflow
                if signed && a == -(1i128 << (wa - 1)) && b == -1 { continue; }
                if std::env::var("LD_CASE").is_ok() { eprintln!("signed={} {}b/{}b: {} / {} -> q={} r={} (expected {} {})", signed, wa, wb, a, b, gq, gr, fq, fr); continue; }
                if gq != fq || gr != fr {
                    return json!({"found": true, "routine": "longdiv_ref", "property": "C17", "input": {"signed": signed, "dividend_bits": wa, "divisor_bits": wb, "dividend": a.to_string(), "divisor": b.to_string()},
                        "expected": {"quotient": fq.to_string(), "remainder": fr.to_string()}, "observed": {"quotient": gq.to_string(), "remainder": gr.to_string()},
                        "what": "LongDivision instantiated and evaluated by SimpleEvaluator vs. floored division"});
                }
            }
        }
    }
    json!({"found": false, "routine": "longdiv_ref", "tried": tried})
}

// C01: compiled Join (all four join types; keys repeated in the first table, missing partners, null rows) returns exactly the plaintext table, revealed
fn join_ref(seed: u64) -> serde_json::Value {
    use ciphercore_base::graphs::util::simple_context;
    use ciphercore_base::graphs::JoinType;
    use ciphercore_base::mpc::mpc_compiler::IOStatus;
    use ciphercore_base::type_inference::NULL_HEADER;
    use std::collections::HashMap;
    let mut rng = Rng(seed | 1);
    let mut tried = 0u64;
    let (nx, ny) = (6u64, 3u64);
    for jt in [JoinType::Inner, JoinType::Left, JoinType::Union, JoinType::Full] {
        let jtc = jt.clone();
        let c = match simple_context(|g| {
            let null_x = g.input(array_type(vec![nx], BIT))?; let k_x = g.input(array_type(vec![nx], UINT64))?; let a_x = g.input(array_type(vec![nx], INT64))?;
            let null_y = g.input(array_type(vec![ny], BIT))?; let k_y = g.input(array_type(vec![ny], UINT64))?; let b_y = g.input(array_type(vec![ny, 2], BIT))?; let c_y = g.input(array_type(vec![ny], INT64))?;
            let x = g.create_named_tuple(vec![(NULL_HEADER.to_owned(), null_x), ("k".to_owned(), k_x), ("a".to_owned(), a_x)])?;
            let y = g.create_named_tuple(vec![(NULL_HEADER.to_owned(), null_y), ("k".to_owned(), k_y), ("b".to_owned(), b_y), ("c".to_owned(), c_y)])?;
            let mut headers = HashMap::new(); headers.insert("k".to_owned(), "k".to_owned());
            x.join(y, jtc.clone(), headers) }) { Ok(c) => c, Err(e) => return json!({"found": false, "routine": "join_ref", "error": e.to_string()}) };
        // Union / Full require unique keys in the first table; Inner / Left take many-to-one tables
        let many = matches!(jt, JoinType::Inner | JoinType::Left);
        for rep in 0..2u64 {
            tried += 1;
            let xk: Vec<u64> = if many { if rep == 0 { vec![7, 5, 7, 9, 5, 7] } else { vec![3, 3, 3, 8, 1, 3] } } else { vec![7, 5, 2, 9, 4, 1] };
            let yk: Vec<u64> = if rep == 0 { vec![5, 7, 8] } else { vec![3, 9, 1] };
            let inputs = vec![Value::from_flattened_array(&[1u64, 1, 1, if rep == 0 { 1 } else { 0 }, 1, 1], BIT).unwrap(), Value::from_flattened_array(&xk, UINT64).unwrap(), Value::from_flattened_array(&(0..nx).map(|i| rng.next() % 100 + i).collect::<Vec<u64>>(), INT64).unwrap(),
                Value::from_flattened_array(&[1u64, 1, 1], BIT).unwrap(), Value::from_flattened_array(&yk, UINT64).unwrap(), Value::from_flattened_array(&[0u64, 1, 1, 1, 1, 0], BIT).unwrap(), Value::from_flattened_array(&[50u64, 70, 80], INT64).unwrap()];
            let mut owners = vec![IOStatus::Party(0); 3]; owners.extend(vec![IOStatus::Party(1); 4]);
            let r = catch_unwind(AssertUnwindSafe(|| -> Result<bool> {
                let expected = random_evaluate(c.get_main_graph()?, inputs.clone())?;
                let (_ctx, g) = compile_simple(&c, owners.clone(), vec![IOStatus::Party(2)])?;
                for _ in 0..2 { if random_evaluate(g.clone(), inputs.clone())? != expected { return Ok(false); } }
                Ok(true) }));
            let obs = match r { Ok(Ok(true)) => continue, Ok(Ok(false)) => "the compiled join returns a different table than the plaintext join".to_owned(), Ok(Err(e)) => format!("error: {}", e), Err(_) => "panic".to_owned() };
            return json!({"found": true, "routine": "join_ref", "property": "C01", "input": {"join_type": format!("{:?}", jt), "first_table_keys": xk, "second_table_keys": yk, "owners": "first table: party 0, second table: party 1, output: party 2"}, "observed": obs,
                "what": "graph compiled by prepare_for_mpc_evaluation and evaluated vs. the plaintext Join"});
        }
    }
    json!({"found": false, "routine": "join_ref", "tried": tried})
}

// C06 / C04: optimize_context keeps the function of the graph, every input node, and never merges or drops-by-merging PRF / Random nodes
fn optimizer_equiv(seed: u64) -> serde_json::Value {
    use ciphercore_base::evaluators::simple_evaluator::SimpleEvaluator;
    use ciphercore_base::evaluators::Evaluator;
    use ciphercore_base::graphs::util::simple_context;
    use ciphercore_base::graphs::{create_context, Node, NodeAnnotation, Operation};
    use ciphercore_base::optimizer::optimize::optimize_context;
    type B = Box<dyn Fn(&Graph) -> Result<Node>>;
    let mut cases: Vec<(String, B)> = vec![
        ("duplicates and a dangling node".into(), Box::new(move |g| { let a = g.input(array_type(vec![3], INT32))?; let b = g.input(array_type(vec![3], INT32))?; let _unused = g.input(array_type(vec![2], INT32))?; let s1 = a.add(b.clone())?; let s2 = a.add(b.clone())?; let _d = s1.multiply(s1.clone())?; s1.multiply(s2)?.subtract(b) })),
        ("two PRF nodes with the same key and counter feeding a difference".into(), Box::new(move |g| { let k = g.input(array_type(vec![128], BIT))?; let a = g.input(array_type(vec![3], INT32))?; let p1 = k.prf(0, array_type(vec![3], INT32))?; let p2 = k.prf(0, array_type(vec![3], INT32))?; a.add(p1)?.subtract(p2) })),
        ("annotated copies are not merged with plain ones".into(), Box::new(move |g| { let a = g.input(array_type(vec![3], INT32))?; let n1 = a.nop()?; n1.add_annotation(NodeAnnotation::Send(0, 1))?; let n2 = a.nop()?; n1.add(n2) })),
        ("constants and unused constant".into(), Box::new(move |g| { let a = g.input(array_type(vec![3], INT32))?; let c1 = g.constant(array_type(vec![3], INT32), Value::from_flattened_array(&[1u64, 2, 3], INT32)?)?; let _c2 = g.constant(array_type(vec![3], INT32), Value::from_flattened_array(&[9u64, 9, 9], INT32)?)?; a.multiply(c1.clone())?.add(c1) })),
        ("send marker on a folded TupleGet".into(), Box::new(move |g| { let a = g.input(array_type(vec![3], INT32))?; let b = g.input(array_type(vec![3], INT32))?; let tp = g.create_tuple(vec![a.clone(), b.clone()])?; let t1 = tp.tuple_get(1)?; t1.add_annotation(NodeAnnotation::Send(0, 1))?; t1.add(a) })),
        ("send marker on a folded VectorGet / NamedTupleGet".into(), Box::new(move |g| { let a = g.input(array_type(vec![3], INT32))?; let b = g.input(array_type(vec![3], INT32))?; let v = g.create_vector(array_type(vec![3], INT32), vec![a.clone(), b.clone()])?;
            let i1 = g.constant(scalar_type(UINT64), Value::from_scalar(1, UINT64)?)?; let e = v.vector_get(i1)?; e.add_annotation(NodeAnnotation::Send(1, 2))?;
            let nt = g.create_named_tuple(vec![("x".to_owned(), a.clone()), ("y".to_owned(), e.clone())])?; let y = nt.named_tuple_get("y".to_owned())?; y.add_annotation(NodeAnnotation::Send(2, 0))?; y.add(a) })),
        ("send marker on a folded A2B(B2A)".into(), Box::new(move |g| { let a = g.input(array_type(vec![3], INT32))?; let bits = a.a2b()?; let back = bits.b2a(INT32)?; back.add_annotation(NodeAnnotation::Send(0, 2))?; let again = back.a2b()?; again.add_annotation(NodeAnnotation::Send(1, 0))?; again.b2a(INT32)?.add(back) })),
        ("B2A of A2B with another scalar type is not folded away".into(), Box::new(move |g| { let a = g.input(array_type(vec![3], INT32))?; let u = a.a2b()?.b2a(UINT32)?; let c = g.constant(array_type(vec![3], UINT32), Value::from_flattened_array(&[1u64, 2, 3], UINT32)?)?; u.add(c) })),
        ("tuple plumbing".into(), Box::new(move |g| { let a = g.input(array_type(vec![3], INT32))?; let b = g.input(array_type(vec![3], INT32))?; let tp = g.create_tuple(vec![a.clone(), b.clone()])?; tp.tuple_get(1)?.add(tp.tuple_get(0)?)?.add(a) })),
        ("matrix products in both orders on the same operands".into(), Box::new(move |g| { let a = g.input(array_type(vec![2, 2], INT64))?; let b = g.input(array_type(vec![2, 2], INT64))?; let v = g.input(array_type(vec![2], INT64))?;
            g.create_tuple(vec![a.dot(b.clone())?.subtract(b.dot(a.clone())?)?, a.matmul(b.clone())?.subtract(b.matmul(a.clone())?)?, v.dot(a.clone())?, a.dot(v)?]) })),
        ("constants with equal bytes and different types".into(), Box::new(move |g| { let x = g.input(array_type(vec![8], UINT8))?; let y = g.input(scalar_type(UINT64))?; let z = g.input(scalar_type(INT64))?;
            let c8 = g.constant(array_type(vec![8], UINT8), Value::from_flattened_array(&[1u64, 0, 0, 0, 0, 0, 0, 0], UINT8)?)?;
            let cu = g.constant(scalar_type(UINT64), Value::from_scalar(1, UINT64)?)?; let ci = g.constant(scalar_type(INT64), Value::from_scalar(1, INT64)?)?;
            g.create_tuple(vec![x.add(c8)?, y.add(cu.clone())?, z.add(ci.clone())?, cu.add(cu.clone())?, ci.add(ci.clone())?]) })),
    ];
    // generated graphs: two typed pools of 2x2 matrices; binary operations are often repeated with the operands swapped; scalar constants 0..2 of both types
    for gi in 0..40u64 {
        let gs = seed.wrapping_mul(0x9e3779b97f4a7c15).wrapping_add(gi * 7919) | 1;
        cases.push((format!("generated graph #{} (generator seed {})", gi, gs), Box::new(move |g| {
            let mut rng = Rng(gs);
            let sts = [INT64, UINT64];
            let mut pools: Vec<Vec<Node>> = vec![];
            for st in sts.iter() { pools.push(vec![g.input(array_type(vec![2, 2], *st))?, g.input(array_type(vec![2, 2], *st))?]); }
            let mut last_bin: Vec<Option<(u64, Node, Node)>> = vec![None, None];
            for _ in 0..14 {
                let p = (rng.next() % 2) as usize; let st = sts[p];
                let n = pools[p].len() as u64;
                let (x, y) = (pools[p][(rng.next() % n) as usize].clone(), pools[p][(rng.next() % n) as usize].clone());
                let bin = |k: u64, x: Node, y: Node| -> Result<Node> { match k { 0 => x.add(y), 1 => x.subtract(y), 2 => x.multiply(y), 3 => x.dot(y), _ => x.matmul(y) } };
                let node = match rng.next() % 10 {
                    0..=3 => { let k = rng.next() % 5; last_bin[p] = Some((k, x.clone(), y.clone())); bin(k, x, y)? }
                    4 | 5 => match last_bin[p].clone() { Some((k, a, b)) => bin(k, b, a)?, None => x.add(y)? },      // the last binary operation with the operands swapped
                    6 => { let c = g.constant(scalar_type(st), Value::from_scalar(rng.next() % 3, st)?)?; if rng.next() % 2 == 0 { x.add(c)? } else { c.clone().add(c)?.add(x)? } }
                    7 => x.permute_axes(vec![1, 0])?,
                    8 => { let t = g.create_tuple(vec![x, y])?; t.tuple_get(rng.next() % 2)? }
                    _ => { let c = g.constant(array_type(vec![2, 2], st), Value::from_flattened_array(&[rng.next() % 2, 0, 0, rng.next() % 2], st)?)?; c.multiply(x)? }
                };
                pools[p].push(node);
            }
            let mut outs = vec![];
            for p in 0..2 { let l = pools[p].len(); for k in l.saturating_sub(4)..l { outs.push(pools[p][k].clone()); } }
            g.create_tuple(outs)
        })));
    }
    let eval_nodes = |g: &Graph, inputs: &[Value]| -> Result<Vec<Value>> {
        let mut ev = SimpleEvaluator::new(Some([3u8; 16]))?; ev.preprocess(&g.get_context())?;
        let mut vals: Vec<Value> = vec![]; let mut k = 0;
        for node in g.get_nodes() {
            let v = match node.get_operation() { Operation::Input(_) => { k += 1; inputs[k - 1].clone() }
                _ => { let d = node.get_node_dependencies().iter().map(|d| vals[d.get_id() as usize].clone()).collect(); ev.evaluate_node(node.clone(), d)? } };
            vals.push(v);
        }
        Ok(vals)
    };
    let mut tried = 0u64;
    for (name, build) in cases {
        tried += 1;
        let r = catch_unwind(AssertUnwindSafe(|| -> Result<Option<String>> {
            let c = simple_context(|g| build(g))?;
            let mapped = optimize_context(&c, SimpleEvaluator::new(None)?)?;
            let oc = mapped.get_context();
            let (g0, g1) = (c.get_main_graph()?, oc.get_main_graph()?);
            let ins0: Vec<Type> = g0.get_nodes().iter().filter_map(|n| if let Operation::Input(t) = n.get_operation() { Some(t) } else { None }).collect();
            let ins1: Vec<Type> = g1.get_nodes().iter().filter_map(|n| if let Operation::Input(t) = n.get_operation() { Some(t) } else { None }).collect();
            if ins0 != ins1 { return Ok(Some(format!("input nodes changed: {:?} -> {:?}", ins0.len(), ins1.len()))); }
            // nodes of the source graph the output depends on
            let mut live = vec![false; g0.get_nodes().len()]; live[g0.get_output_node()?.get_id() as usize] = true;
            for n in g0.get_nodes().iter().rev() { if live[n.get_id() as usize] { for d in n.get_node_dependencies() { live[d.get_id() as usize] = true; } } }
            let prf0 = g0.get_nodes().iter().filter(|n| live[n.get_id() as usize] && matches!(n.get_operation(), Operation::PRF(_, _))).count();
            let prf1 = g1.get_nodes().iter().filter(|n| matches!(n.get_operation(), Operation::PRF(_, _))).count();
            if prf1 != prf0 { return Ok(Some(format!("PRF nodes the output depends on: {} before, {} after", prf0, prf1))); }
            // every marker of a node that still has an image sits on that image (a node whose value is no longer needed has no image, and two folded nodes may share one)
            for n in g0.get_nodes() {
                if !mapped.mappings.contains_node(&n) { continue; }
                let m = mapped.mappings.get_node(&n); let have = m.get_annotations()?;
                for a in n.get_annotations()? { if !have.contains(&a) { return Ok(Some(format!("node {} ({}) carries {:?}; its image, node {} ({}), carries {:?}", n.get_id(), n.get_operation(), a, m.get_id(), m.get_operation(), have))); } }
            }
            // recorded types are the ones type inference derives
            let fc = create_context()?; let fg = fc.create_graph()?; let mut fresh: Vec<Node> = vec![];
            for n in g1.get_nodes() {
                let deps: Vec<Node> = n.get_node_dependencies().iter().map(|d| fresh[d.get_id() as usize].clone()).collect();
                let f = match fg.add_node(deps, vec![], n.get_operation()) { Ok(f) => f, Err(e) => return Ok(Some(format!("node {} ({}) of the optimised graph does not type-check on its operands: {}", n.get_id(), n.get_operation(), e))) };
                if f.get_type()? != n.get_type()? { return Ok(Some(format!("node {} ({}) of the optimised graph records type {} but inference gives {}", n.get_id(), n.get_operation(), n.get_type()?, f.get_type()?))); }
                fresh.push(f);
            }
            for rep in 0..3u64 {
                let mut rng = Rng((seed + rep) | 1);
                let inputs: Vec<Value> = ins0.iter().map(|t| { let st = t.get_scalar_type(); let n: u64 = if t.is_scalar() { 1 } else { t.get_shape().iter().product() }; let v: Vec<u64> = (0..n).map(|_| if st == BIT { rng.next() & 1 } else { rng.next() % 1000 }).collect();
                    if t.is_scalar() { Value::from_scalar(v[0], st).unwrap() } else { Value::from_flattened_array(&v, st).unwrap() } }).collect();
                let a = random_evaluate(g0.clone(), inputs.clone())?; let b = random_evaluate(g1.clone(), inputs.clone())?;
                if a != b { return Ok(Some("the optimised graph computes a different value".to_owned())); }
                // the old-to-new node mapping relates nodes that compute the same value
                let (v0, v1) = (eval_nodes(&g0, &inputs)?, eval_nodes(&g1, &inputs)?);
                for n in g0.get_nodes() {
                    if !mapped.mappings.contains_node(&n) { continue; } // removed nodes (dangling, or tuple plumbing simplified away) have no image
                    let m = mapped.mappings.get_node(&n);
                    if v0[n.get_id() as usize] != v1[m.get_id() as usize] { return Ok(Some(format!("the node mapping sends node {} ({}) to node {} ({}), which computes a different value", n.get_id(), n.get_operation(), m.get_id(), m.get_operation()))); }
                }
            }
            Ok(None)
        }));
        match r {
            Ok(Ok(None)) => {}
            Ok(Ok(Some(m))) => return json!({"found": true, "routine": "optimizer_equiv", "property": "C06", "input": {"graph": name}, "observed": m, "what": "optimize_context with SimpleEvaluator, original vs. optimised main graph"}),
            Ok(Err(e)) => return json!({"found": true, "routine": "optimizer_equiv", "property": "C06", "input": {"graph": name}, "observed": format!("error: {}", e)}),
            Err(_) => return json!({"found": true, "routine": "optimizer_equiv", "property": "C06", "input": {"graph": name}, "observed": "panic"}),
        }
    }
    json!({"found": false, "routine": "optimizer_equiv", "tried": tried})
}

// C10: matmul with NumPy broadcasting of the batch dimensions vs. an independent reference
fn matmul_ref(seed: u64) -> serde_json::Value {
    use ciphercore_base::graphs::util::simple_context;
    let mut rng = Rng(seed | 1);
    let mut tried = 0u64;
    let shapes: Vec<(Vec<u64>, Vec<u64>)> = vec![(vec![3], vec![3]), (vec![2, 3], vec![3, 4]), (vec![3], vec![3, 2]), (vec![2, 3], vec![3]), (vec![2, 3], vec![5, 3, 4]), (vec![4, 2, 3], vec![3, 2]),
        (vec![2, 1, 2, 3], vec![4, 3, 2]), (vec![3, 2, 2], vec![2, 3, 2, 2]), (vec![3], vec![2, 3, 2]), (vec![2, 2, 3], vec![3])];
    for st in [INT32, UINT64, BIT, UINT128] {
        let m = st.get_modulus();
        for (s0, s1) in &shapes {
            tried += 1;
            let n0: u64 = s0.iter().product(); let n1: u64 = s1.iter().product();
            let gen = |rng: &mut Rng, n: u64| -> Vec<u128> { (0..n).map(|_| { let x = ((rng.next() as u128) << 64) | rng.next() as u128; match m { Some(mm) => x % mm, None => x } }).collect() };
            let a = gen(&mut rng, n0); let b = gen(&mut rng, n1);
            let (t0, t1) = (array_type(s0.clone(), st), array_type(s1.clone(), st));
            let r = catch_unwind(AssertUnwindSafe(|| -> Result<(Vec<u128>, Type)> {
                let c = simple_context(|g| { let x = g.input(t0.clone())?; let y = g.input(t1.clone())?; x.matmul(y) })?;
                let rt = c.get_main_graph()?.get_output_node()?.get_type()?;
                let out = random_evaluate(c.get_main_graph()?, vec![Value::from_flattened_array(&a, st)?, Value::from_flattened_array(&b, st)?])?;
                let flat = if rt.is_scalar() { vec![out.to_u128(st)?] } else { out.to_flattened_array_u128(rt.clone())? };
                Ok((flat, rt))
            }));
            let (got, rt) = match r { Ok(Ok(x)) => x, Ok(Err(e)) => return json!({"found": true, "routine": "matmul_ref", "property": "C10", "input": {"shapes": [s0, s1], "scalar_type": format!("{}", st)}, "observed": format!("error: {}", e)}),
                Err(_) => return json!({"found": true, "routine": "matmul_ref", "property": "C10", "input": {"shapes": [s0, s1], "scalar_type": format!("{}", st)}, "observed": "panic"}) };
            // reference: pad rank-1 operands, right-align batch dimensions, broadcast dimensions of size 1
            let p0: Vec<u64> = if s0.len() == 1 { vec![1, s0[0]] } else { s0.clone() }; let p1: Vec<u64> = if s1.len() == 1 { vec![s1[0], 1] } else { s1.clone() };
            let (rows, mid, cols) = (p0[p0.len() - 2], p0[p0.len() - 1], p1[p1.len() - 1]);
            let (b0, b1) = (&p0[..p0.len() - 2], &p1[..p1.len() - 2]);
            let nb = b0.len().max(b1.len());
            let bd: Vec<u64> = (0..nb).map(|k| { let d0 = if k + b0.len() >= nb { b0[k + b0.len() - nb] } else { 1 }; let d1 = if k + b1.len() >= nb { b1[k + b1.len() - nb] } else { 1 }; d0.max(d1) }).collect();
            let nbatch: u64 = bd.iter().product();
            let mut want: Vec<u128> = vec![];
            let reduce = |x: u128| match m { Some(mm) => x % mm, None => x };
            for bi in 0..nbatch {
                let mut idx = vec![0u64; nb]; let mut rem = bi; for k in (0..nb).rev() { idx[k] = rem % bd[k]; rem /= bd[k]; }
                let off = |bs: &[u64]| -> u64 { let mut o = 0u64; for k in 0..bs.len() { let d = bs[k]; let i = idx[k + nb - bs.len()] % d; o = o * d + i; } o };
                let (o0, o1) = (off(b0), off(b1));
                for rr in 0..rows { for cc in 0..cols {
                    let mut acc: u128 = 0;
                    for j in 0..mid { let x = a[((o0 * rows + rr) * mid + j) as usize]; let y = b[((o1 * mid + j) * cols + cc) as usize];
                        let pm = match m { Some(mm) => (x % mm) * (y % mm) % mm, None => x.wrapping_mul(y) }; acc = reduce(acc.wrapping_add(pm)); }
                    want.push(acc);
                } }
            }
            let got: Vec<u128> = got.into_iter().map(reduce).collect();
            if got != want {
                return json!({"found": true, "routine": "matmul_ref", "property": "C10", "input": {"shapes": [s0, s1], "scalar_type": format!("{}", st), "result_type": format!("{}", rt), "a": a.iter().map(|x| x.to_string()).collect::<Vec<_>>(), "b": b.iter().map(|x| x.to_string()).collect::<Vec<_>>()},
                    "expected": want.iter().map(|x| x.to_string()).collect::<Vec<_>>(), "observed": got.iter().map(|x| x.to_string()).collect::<Vec<_>>(), "what": "Matmul evaluated by SimpleEvaluator vs. a reference with right-aligned batch broadcasting"});
            }
        }
    }
    json!({"found": false, "routine": "matmul_ref", "tried": tried})
}

// C14: per-party shares reconstruct the secret, for scalars, arrays (incl. bits and 128-bit) and nested containers
// C14/C15: PRNG::get_random_value reads every leaf from its own range of the generator's stream: the leaves of a random value, in order,
// are the bytes a second generator with the same seed hands out with get_random_bytes (last byte of a leaf with the unused bits shifted out)
fn prng_stream(seed: u64) -> serde_json::Value {
    use ciphercore_base::random::PRNG;
    use ciphercore_base::data_types::get_size_in_bits;
    fn leaves(v: &Value, t: &Type, out: &mut Vec<(Type, Vec<u8>)>) {
        match t {
            Type::Scalar(_) | Type::Array(_, _) => out.push((t.clone(), v.access_bytes(|b| Ok(b.to_vec())).unwrap())),
            _ => { let ts = ciphercore_base::data_types::get_types_vector(t.clone()).unwrap(); let kids = v.to_vector().unwrap(); for (k, st) in kids.iter().zip(ts.iter()) { leaves(k, st, out); } }
        }
    }
    let types: Vec<Type> = vec![scalar_type(UINT64), array_type(vec![5], BIT), vector_type(3, scalar_type(UINT64)), vector_type(4, array_type(vec![3], BIT)), vector_type(2, tuple_type(vec![scalar_type(UINT8), scalar_type(INT64)])),
        tuple_type(vec![scalar_type(INT32), vector_type(3, array_type(vec![2], UINT16)), scalar_type(BIT)]),
        named_tuple_type(vec![("a".to_owned(), vector_type(2, scalar_type(INT128))), ("b".to_owned(), tuple_type(vec![scalar_type(BIT), scalar_type(BIT)]))]), vector_type(2, vector_type(2, scalar_type(UINT32)))];
    let mut tried = 0;
    for (ti, t) in types.iter().enumerate() {
        for rep in 0..4u64 {
            tried += 1;
            let mut sd = [0u8; 16]; sd[..8].copy_from_slice(&(seed.wrapping_mul(1000) + ti as u64 * 10 + rep + 1).to_le_bytes());
            let v = match PRNG::new(Some(sd)).unwrap().get_random_value(t.clone()) { Ok(v) => v, Err(e) => return json!({"found": true, "routine": "prng_stream", "property": "C14", "input": {"type": format!("{}", t)}, "expected": "a value", "observed": e.to_string(), "what": "PRNG::get_random_value"}) };
            let mut ls = vec![]; leaves(&v, t, &mut ls);
            let mut reference = PRNG::new(Some(sd)).unwrap();
            for (li, (lt, got)) in ls.iter().enumerate() {
                let bits = get_size_in_bits(lt.clone()).unwrap(); let nb = ((bits + 7) / 8) as usize;
                let mut want = reference.get_random_bytes(nb).unwrap();
                if let Some(l) = want.last_mut() { *l >>= 8 * nb as u64 - bits; }
                if &want != got {
                    return json!({"found": true, "routine": "prng_stream", "property": "C14", "input": {"type": format!("{}", t), "seed_bytes": sd.to_vec(), "leaf": li},
                        "expected": format!("leaf {} = the next {} bytes of the stream: {:?}", li, nb, want), "observed": format!("{:?}", got), "what": "PRNG::get_random_value vs. the generator's own byte stream (every leaf a fresh range)"});
                }
            }
        }
    }
    json!({"found": false, "routine": "prng_stream", "tried": tried})
}

fn share_roundtrip(seed: u64) -> serde_json::Value {
    use ciphercore_base::random::PRNG;
    use ciphercore_base::typed_value::TypedValue;
    let mut sd = [0u8; 16]; sd[..8].copy_from_slice(&(seed + 1).to_le_bytes());
    let mut prng = PRNG::new(Some(sd)).unwrap();
    let types: Vec<Type> = vec![scalar_type(BIT), scalar_type(INT8), scalar_type(UINT64), scalar_type(INT128), array_type(vec![3], BIT), array_type(vec![2, 2], UINT16), array_type(vec![2], UINT128),
        tuple_type(vec![scalar_type(INT32), array_type(vec![2], BIT)]), vector_type(2, tuple_type(vec![scalar_type(UINT8), scalar_type(INT64)])),
        named_tuple_type(vec![("a".to_owned(), array_type(vec![2], INT16)), ("b".to_owned(), tuple_type(vec![scalar_type(BIT)]))])];
    let mut tried = 0;
    for t in types {
        for _ in 0..8 {
            tried += 1;
            let v = prng.get_random_value(t.clone()).unwrap();
            let tv = TypedValue::new(t.clone(), v.clone()).unwrap();
            let r = catch_unwind(AssertUnwindSafe(|| -> std::result::Result<bool, String> {
                let parties = tv.get_local_shares_for_each_party(&mut PRNG::new(Some(sd)).unwrap()).map_err(|e| e.to_string())?;
                let k: Vec<Vec<Value>> = parties.iter().map(|p| p.value.to_vector().unwrap()).collect();
                if k[0][0] != k[2][0] || k[0][1] != k[1][1] || k[1][2] != k[2][2] { return Ok(false); }
                // the third slot of party p (index p+2) must not be the real share with that index (a coincidence has probability 2^-64 or less for the types checked)
                let wide = matches!(&t, Type::Scalar(st) | Type::Array(_, st) if st.size_in_bits() >= 64) || matches!(&t, Type::Vector(_, _) | Type::NamedTuple(_));
                if wide && (k[0][2] == k[1][2] || k[1][0] == k[0][0] || k[2][1] == k[0][1]) { return Err("a party's third slot holds the real share it must not know".to_owned()); }
                let shares = TypedValue::new(tuple_type(vec![t.clone(), t.clone(), t.clone()]), Value::from_vector(vec![k[0][0].clone(), k[0][1].clone(), k[1][2].clone()])).map_err(|e| e.to_string())?;
                let back = shares.secret_share_reveal().map_err(|e| e.to_string())?;
                Ok(back.value == v)
            }));
            let ok = matches!(r, Ok(Ok(true)));
            if !ok {
                return json!({"found": true, "routine": "share_roundtrip", "property": "C14", "input": {"type": format!("{}", t), "value": format!("{:?}", serde_json::to_string(&v).unwrap_or_default())},
                    "expected": "party i holds shares i and i+1 and the three shares recombine to the secret", "observed": format!("{:?}", r.map_err(|_| "panic")), "what": "TypedValue::get_local_shares_for_each_party + secret_share_reveal"});
            }
        }
    }
    json!({"found": false, "routine": "share_roundtrip", "tried": tried})
}

// C13: Value::check_type against an independent layout reference; values are built valid and then damaged at ONE place
// (a leaf one byte short/long, a child missing/extra, a leaf where a vector belongs and vice versa), at every position of the tree
fn layout_ref(seed: u64) -> serde_json::Value {
    use ciphercore_base::data_types::get_size_in_bits;
    fn build(t: &Type) -> Value {
        match t {
            Type::Scalar(_) | Type::Array(_, _) => { let bits = get_size_in_bits(t.clone()).unwrap(); Value::from_bytes(vec![0u8; ((bits + 7) / 8) as usize]) }
            _ => { let ts = ciphercore_base::data_types::get_types_vector(t.clone()).unwrap(); Value::from_vector(ts.iter().map(|x| build(x)).collect()) }
        }
    }
    fn reference(v: &Value, t: &Type) -> bool {
        match t {
            Type::Scalar(_) | Type::Array(_, _) => { let bits = get_size_in_bits(t.clone()).unwrap(); match v.to_vector() { Ok(_) => false, Err(_) => v.access_bytes(|b| Ok(b.len() as u64 == (bits + 7) / 8)).unwrap() } }
            _ => { let ts = ciphercore_base::data_types::get_types_vector(t.clone()).unwrap(); match v.to_vector() { Ok(kids) => kids.len() == ts.len() && kids.iter().zip(ts.iter()).all(|(k, x)| reference(k, x)), Err(_) => false } }
        }
    }
    // all single damages of a valid value of type t
    fn damaged(t: &Type, out: &mut Vec<(String, Value)>, path: String, rebuild: &dyn Fn(Value) -> Value) {
        match t {
            Type::Scalar(_) | Type::Array(_, _) => {
                let bits = get_size_in_bits(t.clone()).unwrap(); let nb = ((bits + 7) / 8) as usize;
                out.push((format!("{path}: leaf one byte long"), rebuild(Value::from_bytes(vec![0u8; nb + 1]))));
                if nb > 0 { out.push((format!("{path}: leaf one byte short"), rebuild(Value::from_bytes(vec![0u8; nb - 1])))); }
                out.push((format!("{path}: vector where a leaf belongs"), rebuild(Value::from_vector(vec![Value::from_bytes(vec![0u8; nb])]))));
            }
            _ => {
                let ts = ciphercore_base::data_types::get_types_vector(t.clone()).unwrap();
                let kids: Vec<Value> = ts.iter().map(|x| build(x)).collect();
                out.push((format!("{path}: bytes where a vector belongs"), rebuild(Value::from_bytes(vec![0u8; 3]))));
                if !kids.is_empty() { out.push((format!("{path}: last child missing"), rebuild(Value::from_vector(kids[..kids.len() - 1].to_vec())))); }
                let mut more = kids.clone(); more.push(Value::from_bytes(vec![0u8; 1])); out.push((format!("{path}: one child too many"), rebuild(Value::from_vector(more))));
                for (i, ct) in ts.iter().enumerate() {
                    let kids2 = kids.clone();
                    let rb = move |c: Value| { let mut k = kids2.clone(); k[i] = c; rebuild(Value::from_vector(k)) };
                    damaged(ct, out, format!("{path}/{i}"), &rb);
                }
            }
        }
    }
    let types: Vec<Type> = vec![scalar_type(UINT64), scalar_type(BIT), array_type(vec![5], BIT), array_type(vec![9], BIT), array_type(vec![2, 3], INT128), vector_type(3, scalar_type(UINT64)), vector_type(4, array_type(vec![3], BIT)), vector_type(0, scalar_type(INT32)), vector_type(1, scalar_type(INT32)),
        vector_type(2, tuple_type(vec![scalar_type(UINT8), scalar_type(INT64)])), tuple_type(vec![]), tuple_type(vec![scalar_type(INT32), vector_type(3, array_type(vec![2], UINT16)), scalar_type(BIT)]),
        named_tuple_type(vec![("a".to_owned(), vector_type(2, scalar_type(INT128))), ("b".to_owned(), tuple_type(vec![scalar_type(BIT), scalar_type(BIT)]))]), vector_type(2, vector_type(3, scalar_type(UINT32)))];
    let _ = seed; let mut tried = 0;
    for t in types.iter() {
        let mut cases: Vec<(String, Value)> = vec![("valid value".to_owned(), build(t))];
        damaged(t, &mut cases, "".to_owned(), &|v| v);
        for (what, v) in cases {
            tried += 1;
            let want = reference(&v, t);
            let got = catch_unwind(AssertUnwindSafe(|| v.check_type(t.clone())));
            let obs = match got { Ok(Ok(b)) => if b == want { continue } else { format!("{}", b) }, Ok(Err(e)) => format!("Err({})", e), Err(_) => "panic".to_owned() };
            return json!({"found": true, "routine": "layout_ref", "property": "C13", "input": {"type": format!("{}", t), "value": what}, "expected": format!("check_type == {}", want), "observed": obs, "what": "Value::check_type vs. an independent layout reference"});
        }
    }
    json!({"found": false, "routine": "layout_ref", "tried": tried})
}

// C08: two parameterisations of one custom operation used in ONE context on the same argument types must both instantiate
// (a name collision makes run_instantiation_pass fail with "names must be unique", or - worse - would reuse the wrong graph)
fn name_collision(_seed: u64) -> serde_json::Value {
    use ciphercore_base::graphs::Node;
    use ciphercore_base::mpc::low_mc::{LowMC, LowMCBlockSize};
    use ciphercore_base::ops::clip::Clip2K;
    use ciphercore_base::ops::fixed_precision::fixed_multiply::FixedMultiply;
    use ciphercore_base::ops::fixed_precision::fixed_precision_config::FixedPrecisionConfig;
    use ciphercore_base::ops::integer_key_sort::SortByIntegerKey;
    use ciphercore_base::ops::pwl::approx_gelu::ApproxGelu;
    use ciphercore_base::ops::pwl::approx_gelu_derivative::ApproxGeluDerivative;
    use ciphercore_base::ops::pwl::approx_sigmoid::ApproxSigmoid;
    use ciphercore_base::ops::comparisons::GreaterThan;
    use ciphercore_base::ops::long_division::LongDivision;
    type Case = (&'static str, Vec<Type>, Box<dyn Fn() -> (CustomOperation, CustomOperation)>);
    let i64a = array_type(vec![4], INT64);
    let table = named_tuple_type(vec![("a".to_owned(), array_type(vec![5], UINT32)), ("b".to_owned(), array_type(vec![5], UINT32))]);
    let cases: Vec<Case> = vec![
        ("SortByIntegerKey { key } with two keys", vec![table.clone()], Box::new(|| (CustomOperation::new(SortByIntegerKey { key: "a".to_owned() }), CustomOperation::new(SortByIntegerKey { key: "b".to_owned() })))),
        ("ApproxGelu { approximation_log_buckets } 4 vs 5", vec![i64a.clone()], Box::new(|| (CustomOperation::new(ApproxGelu { precision: 10, approximation_log_buckets: 4 }), CustomOperation::new(ApproxGelu { precision: 10, approximation_log_buckets: 5 })))),
        ("ApproxGeluDerivative { approximation_log_buckets } 4 vs 5", vec![i64a.clone()], Box::new(|| (CustomOperation::new(ApproxGeluDerivative { precision: 10, approximation_log_buckets: 4 }), CustomOperation::new(ApproxGeluDerivative { precision: 10, approximation_log_buckets: 5 })))),
        ("ApproxSigmoid { approximation_log_buckets } 4 vs 5", vec![i64a.clone()], Box::new(|| (CustomOperation::new(ApproxSigmoid { precision: 10, approximation_log_buckets: 4 }), CustomOperation::new(ApproxSigmoid { precision: 10, approximation_log_buckets: 5 })))),
        ("FixedMultiply { config.debug } false vs true", vec![i64a.clone(), i64a.clone()], Box::new(|| (CustomOperation::new(FixedMultiply { config: FixedPrecisionConfig { fractional_bits: 10, debug: false } }), CustomOperation::new(FixedMultiply { config: FixedPrecisionConfig { fractional_bits: 10, debug: true } })))),
        ("LowMC { block_size } 80 vs 128 on 80-bit blocks", vec![array_type(vec![2, 80], BIT), array_type(vec![128], BIT)], Box::new(|| (CustomOperation::new(LowMC { s_boxes_per_round: 10, rounds: 20, block_size: LowMCBlockSize::SIZE80 }), CustomOperation::new(LowMC { s_boxes_per_round: 10, rounds: 20, block_size: LowMCBlockSize::SIZE128 })))),
        ("Clip2K { k } 3 vs 4", vec![array_type(vec![2, 16], BIT)], Box::new(|| (CustomOperation::new(Clip2K { k: 3 }), CustomOperation::new(Clip2K { k: 4 })))),
        ("GreaterThan { signed } false vs true", vec![array_type(vec![2, 16], BIT), array_type(vec![2, 16], BIT)], Box::new(|| (CustomOperation::new(GreaterThan { signed_comparison: false }), CustomOperation::new(GreaterThan { signed_comparison: true })))),
        ("two DIFFERENT operations: GreaterThan and GreaterThanEqualTo (same signedness)", vec![array_type(vec![2, 16], BIT), array_type(vec![2, 16], BIT)], Box::new(|| (CustomOperation::new(GreaterThan { signed_comparison: true }), CustomOperation::new(ciphercore_base::ops::comparisons::GreaterThanEqualTo { signed_comparison: true })))),
        ("two DIFFERENT operations: LessThan and LessThanEqualTo", vec![array_type(vec![2, 16], BIT), array_type(vec![2, 16], BIT)], Box::new(|| (CustomOperation::new(ciphercore_base::ops::comparisons::LessThan { signed_comparison: false }), CustomOperation::new(ciphercore_base::ops::comparisons::LessThanEqualTo { signed_comparison: false })))),
        ("two DIFFERENT operations: Equal and NotEqual", vec![array_type(vec![2, 16], BIT), array_type(vec![2, 16], BIT)], Box::new(|| (CustomOperation::new(ciphercore_base::ops::comparisons::Equal {}), CustomOperation::new(ciphercore_base::ops::comparisons::NotEqual {})))),
        ("two DIFFERENT operations: Min and Max", vec![array_type(vec![2, 16], BIT), array_type(vec![2, 16], BIT)], Box::new(|| (CustomOperation::new(ciphercore_base::ops::min_max::Min { signed_comparison: true }), CustomOperation::new(ciphercore_base::ops::min_max::Max { signed_comparison: true })))),
        ("two DIFFERENT operations: ApproxGelu and ApproxGeluDerivative", vec![i64a.clone()], Box::new(|| (CustomOperation::new(ApproxGelu { precision: 10, approximation_log_buckets: 5 }), CustomOperation::new(ApproxGeluDerivative { precision: 10, approximation_log_buckets: 5 })))),
        ("LongDivision { signed } false vs true", vec![array_type(vec![2], INT32), array_type(vec![2], INT32)], Box::new(|| (CustomOperation::new(LongDivision { signed: false }), CustomOperation::new(LongDivision { signed: true })))),
    ];
    let mut tried = 0; let mut found: Vec<serde_json::Value> = vec![];
    for (what, types, mk) in cases {
        tried += 1;
        let r = catch_unwind(AssertUnwindSafe(|| -> std::result::Result<(), String> {
            let (o1, o2) = mk();
            let same = if o1.get_name() == o2.get_name() { format!("both parameterisations are named {:?}; ", o1.get_name()) } else { String::new() };
            let c = create_context().map_err(|e| e.to_string())?; let g = c.create_graph().map_err(|e| e.to_string())?;
            let ins: Vec<Node> = types.iter().map(|t| g.input(t.clone()).unwrap()).collect();
            // each alone must be accepted by the builder; if one is rejected for its own reasons the case says nothing
            let n1 = match g.custom_op(o1, ins.clone()) { Ok(n) => n, Err(_) => return Ok(()) };
            let n2 = match g.custom_op(o2, ins.clone()) { Ok(n) => n, Err(_) => return Ok(()) };
            g.create_tuple(vec![n1, n2]).and_then(|o| o.set_as_output()).map_err(|e| e.to_string())?;
            g.finalize().and_then(|g| g.set_as_main()).map_err(|e| e.to_string())?; c.finalize().map_err(|e| e.to_string())?;
            match run_instantiation_pass(c) { Ok(_) => if same.is_empty() { Ok(()) } else { Err(format!("{}the context instantiates all the same", same)) },
                Err(e) => Err(format!("{}run_instantiation_pass fails: {}", same, e.to_string().lines().next().unwrap_or(""))) }
        }));
        let obs = match r { Ok(Ok(())) => continue, Ok(Err(m)) => m, Err(_) => "panic".to_owned() };
        found.push(json!({"operations": what, "argument_types": types.iter().map(|t| format!("{}", t)).collect::<Vec<_>>(), "observed": obs}));
    }
    if !found.is_empty() {
        return json!({"found": true, "routine": "name_collision", "property": "C08", "input": found[0].clone(), "all_failing_cases": found,
            "expected": "two different names; the context instantiates", "what": "CustomOperation::get_name / run_instantiation_pass on a context using both parameterisations on the same argument types"});
    }
    json!({"found": false, "routine": "name_collision", "tried": tried})
}

// C12: a systematic sweep of single corruptions of a serialized context (every number -> 0 / 99, every array reversed / truncated / first element
// duplicated, every bool flipped, every non-null leaf -> null): loading must not panic, and what loads must be well-formed
// (a graph that rejects new nodes - i.e. is finalized - has an output node; a finalized context has a main graph and only finalized graphs; it re-serializes and loads again)
fn ctx_corrupt_sweep(_seed: u64) -> serde_json::Value {
    use ciphercore_base::graphs::{Context, NodeAnnotation};
    let base = || -> Result<Context> {
        let c = create_context()?;
        let h = c.create_graph()?; { let x = h.input(scalar_type(INT32))?; x.set_name("hx")?; let y = x.add(x.clone())?; y.add_annotation(NodeAnnotation::Send(0, 1))?; y.set_as_output()?; h.finalize()?; h.set_name("helper")?; }
        let g = c.create_graph()?; { let a = g.input(array_type(vec![2], INT32))?; a.set_name("a")?; let k = g.constant(scalar_type(INT32), Value::from_scalar(3, INT32)?)?; let r = g.call(h.clone(), vec![k])?; r.set_name("r")?;
            let o = a.add(r)?; o.add_annotation(NodeAnnotation::Send(1, 2))?; o.set_as_output()?; g.finalize()?; g.set_name("main")?; g.set_as_main()?; }
        c.finalize()?; Ok(c)
    };
    let c = match base() { Ok(c) => c, Err(e) => return json!({"found": false, "error": e.to_string()}) };
    let outer: serde_json::Value = serde_json::from_str(&serde_json::to_string(&c).unwrap()).unwrap();
    let ver = outer["version"].as_u64().unwrap();
    let inner: serde_json::Value = serde_json::from_str(outer["data"].as_str().unwrap()).unwrap();
    fn paths(v: &serde_json::Value, cur: &mut Vec<String>, out: &mut Vec<Vec<String>>) {
        out.push(cur.clone());
        match v { serde_json::Value::Array(a) => for (i, x) in a.iter().enumerate() { cur.push(i.to_string()); paths(x, cur, out); cur.pop(); },
            serde_json::Value::Object(m) => for (k, x) in m.iter() { cur.push(k.clone()); paths(x, cur, out); cur.pop(); }, _ => {} }
    }
    fn at<'a>(v: &'a mut serde_json::Value, p: &[String]) -> &'a mut serde_json::Value { let mut x = v; for k in p { x = if x.is_array() { &mut x[k.parse::<usize>().unwrap()] } else { &mut x[k.as_str()] }; } x }
    let mut ps = vec![]; paths(&inner, &mut vec![], &mut ps);
    let mut cands: Vec<(String, String)> = vec![];
    for p in ps.iter() {
        let mut probe = inner.clone(); let leaf = at(&mut probe, p).clone();
        let mut muts: Vec<(&str, serde_json::Value)> = vec![];
        match &leaf {
            serde_json::Value::Number(_) => { muts.push(("-> 99", json!(99))); muts.push(("-> 0", json!(0))); muts.push(("-> 1", json!(1))); }
            serde_json::Value::Bool(b) => muts.push(("flipped", json!(!b))),
            serde_json::Value::Array(a) if !a.is_empty() => { let mut r = a.clone(); r.reverse(); if a.len() > 1 { muts.push(("reversed", json!(r))); } muts.push(("last dropped", json!(a[..a.len() - 1].to_vec())));
                let mut d = a.clone(); d.insert(0, a[a.len() - 1].clone()); muts.push(("last element also first", json!(d))); }
            _ => {}
        }
        if !leaf.is_null() { muts.push(("-> null", serde_json::Value::Null)); }
        for (what, val) in muts { let mut m = inner.clone(); *at(&mut m, p) = val; cands.push((format!("/{} {}", p.join("/"), what), m.to_string())); }
    }
    let mut tried = 0u64;
    for (what, text) in cands {
        tried += 1;
        let outer_text = json!({"version": ver, "data": text}).to_string();
        let r = catch_unwind(AssertUnwindSafe(|| -> std::result::Result<(), String> {
            let c2 = match serde_json::from_str::<Context>(&outer_text) { Ok(c2) => c2, Err(_) => return Ok(()) };
            let again = serde_json::to_string(&c2).map_err(|e| format!("the loaded context does not serialize: {}", e))?;
            let c3 = serde_json::from_str::<Context>(&again).map_err(|e| format!("the loaded context does not load again after serialization: {}", e))?;
            if !ciphercore_base::graphs::contexts_deep_equal(&c2, &c3) { return Err("the loaded context is not equal to its own round trip".to_owned()); }
            let ctx_final = c2.check_finalized().is_ok();
            if ctx_final && c2.get_main_graph().is_err() { return Err("the loaded context is finalized but has no main graph".to_owned()); }
            for g in c2.get_graphs() {
                let has_out = g.get_output_node().is_ok();
                let rejects = g.input(scalar_type(BIT)).is_err();        // a finalized graph rejects every mutation
                if rejects && !has_out { return Err(format!("graph {} of the loaded context is finalized but has no output node", g.get_id())); }
                if ctx_final && !rejects { return Err(format!("the loaded context is finalized but its graph {} is not", g.get_id())); }
            }
            Ok(())
        }));
        let obs = match r { Ok(Ok(())) => continue, Ok(Err(m)) => m, Err(_) => "panic".to_owned() };
        return json!({"found": true, "routine": "ctx_corrupt_sweep", "property": "C12", "input": {"corruption": what, "version": ver, "data": text.chars().take(400).collect::<String>()},
            "expected": "Err(..), or a well-formed context", "observed": obs, "what": "serde_json::from_str::<Context> on a serialized two-graph context with one field corrupted"});
    }
    json!({"found": false, "routine": "ctx_corrupt_sweep", "tried": tried})
}

// C09: SegmentCumSum on an input with u64::MAX rows (a valid type: the element count fits u64) - the typing rule adds one row
fn segcs_overflow() -> serde_json::Value {
    let r = catch_unwind(AssertUnwindSafe(|| -> Result<String> {
        let c = create_context()?; let g = c.create_graph()?;
        let a = g.input(array_type(vec![u64::MAX], BIT))?; let b = g.input(array_type(vec![u64::MAX], BIT))?; let f = g.input(scalar_type(BIT))?;
        match a.segment_cumsum(b, f) { Ok(n) => Ok(format!("accepted with type {}", n.get_type()?)), Err(_) => Ok("Err".to_owned()) }
    }));
    match r {
        Ok(Ok(s)) if s == "Err" => json!({"found": false, "routine": "segcs_overflow", "tried": 1}),
        Ok(Ok(s)) => json!({"found": true, "routine": "segcs_overflow", "property": "C09", "input": {"graph": "segment_cumsum(input bit[u64::MAX], binary bit[u64::MAX], first_row bit)"}, "expected": "Err(..) when the node is added (the result would have 2^64 rows)", "observed": s}),
        Ok(Err(e)) => json!({"found": false, "routine": "segcs_overflow", "error": e.to_string()}),
        Err(_) => json!({"found": true, "routine": "segcs_overflow", "property": "C09", "input": {"graph": "segment_cumsum(input bit[u64::MAX], binary bit[u64::MAX], first_row bit)"}, "expected": "Err(..) when the node is added (the result would have 2^64 rows)", "observed": "panic (attempt to add with overflow in the SegmentCumSum typing rule; a release build wraps to 0 rows instead)"}),
    }
}

// C10: Dot against NumPy's dot: result[i.., k.., m] = sum_j a[i.., j] * b[k.., j, m]
fn dot_ref(seed: u64) -> serde_json::Value {
    use ciphercore_base::graphs::util::simple_context;
    let mut rng = Rng(seed | 1);
    let mut tried = 0u64;
    let shapes: Vec<(Vec<u64>, Vec<u64>)> = vec![(vec![3], vec![3]), (vec![2, 3], vec![3, 4]), (vec![3], vec![3, 2]), (vec![2, 3], vec![3]), (vec![2, 3], vec![5, 3, 4]), (vec![4, 2, 3], vec![3, 2]),
        (vec![2, 2, 3], vec![4, 3, 2]), (vec![3], vec![2, 3, 2]), (vec![2, 2, 3], vec![3]), (vec![2, 3], vec![2, 2, 3, 2])];
    for st in [INT32, UINT64, BIT, UINT128] {
        let m = st.get_modulus();
        for (s0, s1) in &shapes {
            tried += 1;
            let n0: u64 = s0.iter().product(); let n1: u64 = s1.iter().product();
            let gen = |rng: &mut Rng, n: u64| -> Vec<u128> { (0..n).map(|_| { let x = ((rng.next() as u128) << 64) | rng.next() as u128; match m { Some(mm) => x % mm, None => x } }).collect() };
            let a = gen(&mut rng, n0); let b = gen(&mut rng, n1);
            let (t0, t1) = (array_type(s0.clone(), st), array_type(s1.clone(), st));
            let r = catch_unwind(AssertUnwindSafe(|| -> Result<Vec<u128>> {
                let c = simple_context(|g| { let x = g.input(t0.clone())?; let y = g.input(t1.clone())?; x.dot(y) })?;
                let rt = c.get_main_graph()?.get_output_node()?.get_type()?;
                let out = random_evaluate(c.get_main_graph()?, vec![Value::from_flattened_array(&a, st)?, Value::from_flattened_array(&b, st)?])?;
                if rt.is_scalar() { Ok(vec![out.to_u128(st)?]) } else { out.to_flattened_array_u128(rt) }
            }));
            let got = match r { Ok(Ok(x)) => x, Ok(Err(e)) => return json!({"found": true, "routine": "dot_ref", "property": "C10", "input": {"shapes": [s0, s1], "scalar_type": format!("{}", st)}, "observed": format!("error: {}", e)}),
                Err(_) => return json!({"found": true, "routine": "dot_ref", "property": "C10", "input": {"shapes": [s0, s1], "scalar_type": format!("{}", st)}, "observed": "panic"}) };
            let reduce = |x: u128| match m { Some(mm) => x % mm, None => x };
            let mid = s0[s0.len() - 1];
            let outer: u64 = s0[..s0.len() - 1].iter().product();                                   // i..
            let (kk, mm_): (u64, u64) = if s1.len() == 1 { (1, 1) } else { (s1[..s1.len() - 2].iter().product(), s1[s1.len() - 1]) };   // k.., m
            let mut want: Vec<u128> = vec![];
            for i in 0..outer { for k in 0..kk { for c in 0..mm_ {
                let mut acc: u128 = 0;
                for j in 0..mid { let x = a[(i * mid + j) as usize]; let y = if s1.len() == 1 { b[j as usize] } else { b[((k * mid + j) * mm_ + c) as usize] };
                    let pm = match m { Some(q) => (x % q) * (y % q) % q, None => x.wrapping_mul(y) }; acc = reduce(acc.wrapping_add(pm)); }
                want.push(acc);
            } } }
            let got: Vec<u128> = got.into_iter().map(reduce).collect();
            if got != want {
                return json!({"found": true, "routine": "dot_ref", "property": "C10", "input": {"shapes": [s0, s1], "scalar_type": format!("{}", st)},
                    "expected": want.iter().take(12).map(|x| x.to_string()).collect::<Vec<_>>(), "observed": got.iter().take(12).map(|x| x.to_string()).collect::<Vec<_>>(), "what": "Dot evaluated by SimpleEvaluator vs. NumPy's dot (last axis of a with the second-to-last axis of b)"});
            }
        }
    }
    json!({"found": false, "routine": "dot_ref", "tried": tried})
}

// C09: evaluation of graphs whose OUTPUT node has later consumers, whose nodes are consumed several times, never at all, or through Call / Iterate: a value or an error, never a panic
fn eval_release(seed: u64) -> serde_json::Value {
    use ciphercore_base::graphs::Node;
    type B = Box<dyn Fn(&ciphercore_base::graphs::Context) -> Result<Graph>>;
    let t = scalar_type(INT32);
    let cases: Vec<(&str, B, Vec<i64>, i64)> = vec![
        ("the output node x+y is used again by a later node", Box::new({ let t = t.clone(); move |c| { let g = c.create_graph()?; let x = g.input(t.clone())?; let y = g.input(t.clone())?; let o = x.add(y.clone())?; let _later = o.multiply(y)?; o.set_as_output()?; g.finalize() } }), vec![3, 4], 7),
        ("the output node is an input that later nodes consume", Box::new({ let t = t.clone(); move |c| { let g = c.create_graph()?; let x = g.input(t.clone())?; let y = g.input(t.clone())?; let s = x.add(y)?; let _p = s.multiply(x.clone())?; x.set_as_output()?; g.finalize() } }), vec![5, 6], 5),
        ("a node consumed three times, one never consumed", Box::new({ let t = t.clone(); move |c| { let g = c.create_graph()?; let x = g.input(t.clone())?; let y = g.input(t.clone())?; let _unused = y.add(y.clone())?; let a = x.add(x.clone())?; let b = a.add(x.clone())?; b.set_as_output()?; g.finalize() } }), vec![2, 9], 6),
        ("a called graph whose output node has a later consumer", Box::new({ let t = t.clone(); move |c| { let h = c.create_graph()?; let u = h.input(t.clone())?; let o = u.add(u.clone())?; let _later = o.multiply(u)?; o.set_as_output()?; h.finalize()?;
            let g = c.create_graph()?; let x = g.input(t.clone())?; let y = g.input(t.clone())?; let r = g.call(h, vec![x])?; let z = r.add(y)?; z.set_as_output()?; g.finalize() } }), vec![10, 1], 21),
    ];
    let _ = seed; let mut tried = 0;
    for (what, build, ins, want) in cases {
        tried += 1;
        let r = catch_unwind(AssertUnwindSafe(|| -> Result<i64> {
            let c = create_context()?; let g = build(&c)?; g.set_as_main()?; c.finalize()?;
            let vals: Vec<Value> = ins.iter().map(|&v| Value::from_scalar(v, INT32).unwrap()).collect();
            let out = random_evaluate(g, vals)?; Ok(out.to_i64(INT32)?)
        }));
        let obs = match r { Ok(Ok(v)) if v == want => continue, Ok(Ok(v)) => format!("{}", v), Ok(Err(e)) => format!("Err({})", e), Err(_) => "panic".to_owned() };
        return json!({"found": true, "routine": "eval_release", "property": "C09", "input": {"graph": what, "inputs": ins}, "expected": want, "observed": obs, "what": "Evaluator::evaluate_graph (release of intermediate values) on a well-typed graph"});
    }
    json!({"found": false, "routine": "eval_release", "tried": tried})
}

fn main() {
    let args: Vec<String> = std::env::args().collect();
    let seed: u64 = args.get(2).and_then(|s| s.parse().ok()).unwrap_or(0);
    if std::env::var("REPLAY_DEBUG").is_err() { std::panic::set_hook(Box::new(|_| {})); }
    let out = match args.get(1).map(|s| s.as_str()) {
        Some("mux_int") => mux_int(seed),
        Some("mux_panic") => mux_panic(seed),
        Some("ctx_corrupt_annotations") => ctx_corrupt("annotations"),
        Some("ctx_corrupt_payload") => ctx_corrupt("payload"),
        Some("value_corrupt") => value_corrupt(),
        Some("truncate2k_large_k") => truncate2k_large_k(),
        Some("slice_overflow") => slice_overflow(),
        Some("typing_rejects") => typing_rejects(),
        Some("concat_overflow") => concat_overflow(),
        Some("arith_kernels") => arith_kernels(seed),
        Some("broadcast_ref") => broadcast_ref(seed),
        Some("cmp_small_widths") => cmp_small_widths(seed),
        Some("share_roundtrip") => share_roundtrip(seed),
        Some("prng_stream") => prng_stream(seed),
        Some("layout_ref") => layout_ref(seed),
        Some("eval_release") => eval_release(seed),
        Some("dot_ref") => dot_ref(seed),
        Some("segcs_overflow") => segcs_overflow(),
        Some("ctx_corrupt_sweep") => ctx_corrupt_sweep(seed),
        Some("name_collision") => name_collision(seed),
        Some("matmul_ref") => matmul_ref(seed),
        Some("optimizer_equiv") => optimizer_equiv(seed),
        Some("perm_roundtrip") => perm_roundtrip(seed),
        Some("json_roundtrip") => json_roundtrip(seed),
        Some("protocol_knowledge") => protocol_knowledge(),
        Some("psi_knowledge") => psi_knowledge(),
        Some("private_permutation") => private_permutation(),
        Some("structural_wide") => structural_wide(seed),
        Some("truncate_compiled") => truncate_compiled(seed),
        Some("prf_purity") => prf_purity(seed),
        Some("adder_small_widths") => adder_small_widths(seed),
        Some("clip_small_widths") => clip_small_widths(seed),
        Some("join_ref") => join_ref(seed),
        Some("longdiv_ref") => longdiv_ref(seed),
        Some("reduce_ref") => reduce_ref(seed),
        Some("inline_equiv") => inline_equiv(seed),
        Some("sort_reference") => sort_reference(seed),
        Some("prf_counters_compiled") => prf_counters_compiled(seed),
        Some("party_sim_c01") => party_sim::run(seed, "C01"),
        Some("party_sim_c02") => party_sim::run(seed, "C02"),
        Some("party_sim_c03") => party_sim::run(seed, "C03"),
        _ => json!({"found": false, "error": "unknown routine"}),
    };
    println!("{}", out);
}
