//! Concrete replay runner: turns a failed obligation into a failing input on the REAL code of /repo.
//! It never decides a property; it only confirms (found=true) or fails to confirm (found=false).
//! usage: replay <routine> [seed]   -> one JSON object on stdout
use ciphercore_base::custom_ops::{run_instantiation_pass, CustomOperation};
use ciphercore_base::data_types::*;
use ciphercore_base::data_values::Value;
use ciphercore_base::errors::Result;
use ciphercore_base::evaluators::random_evaluate;
use ciphercore_base::graphs::{create_context, Graph};
use ciphercore_base::ops::multiplexer::Mux;
use serde_json::json;
use std::panic::{catch_unwind, AssertUnwindSafe};

struct Rng(u64);
impl Rng {
    fn next(&mut self) -> u64 {
        self.0 ^= self.0 << 13;
        self.0 ^= self.0 >> 7;
        self.0 ^= self.0 << 17;
        self.0
    }
}

fn eval_custom(op: CustomOperation, types: Vec<Type>, vals: Vec<Value>) -> Result<Value> {
    let c = create_context()?;
    let g = c.create_graph()?;
    let mut ins = vec![];
    for t in types {
        ins.push(g.input(t)?);
    }
    let o = g.custom_op(op, ins)?;
    g.set_output_node(o)?;
    g.finalize()?;
    c.set_main_graph(g.clone())?;
    c.finalize()?;
    let m = run_instantiation_pass(c)?;
    let gm: Graph = m.mappings.get_graph(g);
    random_evaluate(gm, vals)
}

fn mux_int(seed: u64) -> serde_json::Value {
    let mut rng = Rng(seed | 1);
    let sts = [INT32, UINT8, INT64, UINT16];
    for it in 0..200 {
        let st = sts[it % sts.len()];
        let f = (rng.next() & 1) as u64;
        let a = rng.next() % 100;
        let b = rng.next() % 100;
        let r = eval_custom(
            CustomOperation::new(Mux {}),
            vec![scalar_type(BIT), scalar_type(st), scalar_type(st)],
            vec![Value::from_scalar(f, BIT).unwrap(), Value::from_scalar(a, st).unwrap(), Value::from_scalar(b, st).unwrap()],
        );
        let expected = if f == 1 { a } else { b };
        match r {
            Ok(v) => {
                let got = v.to_u64(st).unwrap();
                if got != expected {
                    return json!({"found": true, "routine": "mux_int", "input": {"scalar_type": format!("{}", st), "selector": f, "second": a, "third": b},
                        "expected": expected, "observed": got, "what": "Mux(selector, second, third) evaluated through instantiation + SimpleEvaluator"});
                }
            }
            Err(e) => return json!({"found": true, "routine": "mux_int", "input": {"selector": f, "second": a, "third": b}, "observed": format!("error {}", e)}),
        }
    }
    json!({"found": false, "routine": "mux_int", "tried": 200})
}

fn mux_panic(_seed: u64) -> serde_json::Value {
    let cands: Vec<(&str, Type)> = vec![
        ("tuple(bit)", tuple_type(vec![scalar_type(BIT)])),
        ("vector(2,bit)", vector_type(2, scalar_type(BIT))),
        ("named_tuple", named_tuple_type(vec![("a".to_owned(), scalar_type(INT32))])),
    ];
    for (name, t) in cands {
        let r = catch_unwind(AssertUnwindSafe(|| {
            let c = create_context().unwrap();
            let g = c.create_graph().unwrap();
            let f = g.input(scalar_type(BIT)).unwrap();
            let a = g.input(t.clone()).unwrap();
            let b = g.input(t.clone()).unwrap();
            g.custom_op(CustomOperation::new(Mux {}), vec![f, a, b]).is_err()
        }));
        if r.is_err() {
            return json!({"found": true, "routine": "mux_panic", "input": {"choice_types": name}, "expected": "Err(..) when the node is added", "observed": "panic",
                "what": "g.custom_op(Mux, [bit, T, T]) with T neither scalar nor array"});
        }
    }
    json!({"found": false, "routine": "mux_panic", "tried": 3})
}

fn main() {
    let args: Vec<String> = std::env::args().collect();
    let seed: u64 = args.get(2).and_then(|s| s.parse().ok()).unwrap_or(0);
    std::panic::set_hook(Box::new(|_| {}));
    let out = match args.get(1).map(|s| s.as_str()) {
        Some("mux_int") => mux_int(seed),
        Some("mux_panic") => mux_panic(seed),
        _ => json!({"found": false, "error": "unknown routine"}),
    };
    println!("{}", out);
}
