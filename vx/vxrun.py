"""Run one Verus unit: generate from the current tree, verify, classify every failed obligation,
run the vacuity probe.  Used by bin/check; can be run by hand:  python3 vx/vxrun.py vx/units/c17_mux.vu
"""
import json
import os
import re
import subprocess
import sys
import time

sys.path.insert(0, os.path.dirname(os.path.abspath(__file__)))
from rsscan import LostAnchor  # noqa: E402
import vxgen  # noqa: E402

VERUS = os.environ.get("VERUS", "verus")
PROP_RE = re.compile(r"\bC\d{2}\b")

# messages that mean "the solver/tool gave up", never a semantic failure
UNDECIDED_PAT = re.compile(r"rlimit|resource limit|timed? ?out|not supported|unsupported|does not yet support|internal error|panicked|cannot find|mismatched types|expected .* found|unresolved|cyclic self-reference|error\[E\d+\]", re.I)
SEMANTIC_KINDS = [
    ("postcondition not satisfied", "postcondition"),
    ("assertion failed", "assertion"),
    ("precondition not satisfied", "precondition"),
    ("invariant not satisfied at end of loop body", "invariant-preserved"),
    ("invariant not satisfied before loop", "invariant-init"),
    ("possible arithmetic underflow/overflow", "overflow"),
    ("possible division by zero", "div-by-zero"),
    ("possible bit shift underflow/overflow", "shift-overflow"),
    ("decreases not satisfied", "termination"),
    ("unable to show termination", "termination"),
    ("index out of bounds", "bounds"),
    ("recommendation not met", "recommends"),
]


def run_verus(rs, extra=(), timeout=600, multiple_errors=20):
    cmd = [VERUS, rs, "--output-json", "--time", "--error-format=json", "--multiple-errors", str(multiple_errors)] + list(extra)
    t0 = time.time()
    try:
        p = subprocess.run(cmd, capture_output=True, text=True, timeout=timeout, cwd=os.path.dirname(rs))
    except subprocess.TimeoutExpired:
        return dict(timeout=True, wall=time.time() - t0, cmd=" ".join(cmd), diags=[], summary=None, stderr="timeout")
    summary = None
    try:
        summary = json.loads(p.stdout)
    except Exception:
        pass
    diags = []
    for l in p.stderr.splitlines():
        l = l.strip()
        if l.startswith("{"):
            try:
                diags.append(json.loads(l))
            except Exception:
                pass
    return dict(timeout=False, wall=time.time() - t0, cmd=" ".join(cmd), diags=diags, summary=summary, stderr=p.stderr, rc=p.returncode)


def classify(diag, lines):
    """-> dict(kind, semantic, fn, tags, origins, message, rendered) or None for non-errors"""
    if diag.get("level") != "error":
        return None
    msg = diag.get("message", "")
    if msg.startswith("aborting due to"):
        return None
    kind = None
    for pat, k in SEMANTIC_KINDS:
        if pat in msg:
            kind = k
            break
    spans = list(diag.get("spans", []))
    for ch in diag.get("children", []):
        spans.extend(ch.get("spans", []))
    origins, tags, fn = [], [], None
    for sp in spans:
        for ln in range(sp["line_start"], sp["line_end"] + 1):
            if 1 <= ln <= len(lines):
                L = lines[ln - 1]
                o = L.origin()
                o["gen_line"] = ln
                o["primary"] = bool(sp.get("is_primary"))
                o["label"] = sp.get("label")
                o["text"] = L.text.strip()[:200]
                origins.append(o)
                if L.tag:
                    tags.append(L.tag)
                if L.fn and (fn is None or sp.get("is_primary")):
                    fn = L.fn
    semantic = kind is not None and not UNDECIDED_PAT.search(msg)
    if kind == "recommends":
        semantic = False
    return dict(kind=kind or "tool-error", semantic=semantic, fn=fn, tags=sorted(set(tags)), origins=origins, message=msg,
                rendered=diag.get("rendered", "")[:4000])


def obligation_name(unit, err):
    prim = [o for o in err["origins"] if o["primary"]]
    o = prim[0] if prim else (err["origins"][0] if err["origins"] else {})
    where = f"{o.get('file', '?')}:{o.get('line', '?')}" if o else "?"
    tag = ("[" + "; ".join(err["tags"]) + "]") if err["tags"] else ""
    return f"{unit}::{err['fn'] or '?'}::{err['kind']}@{where}{tag}"


def trusted_scan(lines):
    """mechanical scan of the generated text for every assumption marker"""
    text = "\n".join(l.text for l in lines)
    names = []
    for m in re.finditer(r"#\[verifier::external_body\]\s*(?:pub\s+)?(?:proof\s+)?(fn|struct)\s+(\w+)", text):
        names.append(("external_body " + m.group(1), m.group(2)))
    for m in re.finditer(r"(?:pub\s+)?(?:broadcast\s+)?proof\s+fn\s+(\w+)[^{]*\{\s*admit\(\);", text):
        names.append(("axiom(admit)", m.group(1)))
    for m in re.finditer(r"\buninterp\s+spec\s+fn\s+(\w+)", text):
        names.append(("uninterp", m.group(1)))
    for l in lines:
        m = re.search(r"//#\s*ENTRY-ASSUMPTION\s*(.*)$", l.text)
        if m:
            names.append(("entry-assumption(assume)", m.group(1).strip()))
    counts = dict(
        external_body=len(re.findall(r"#\[verifier::external_body\]", text)),
        admit=len(re.findall(r"\badmit\(\)", text)),
        assume=len(re.findall(r"\bassume\(", text)),
        assume_specification=len(re.findall(r"\bassume_specification\b", text)),
        uninterp=len(re.findall(r"\buninterp\b", text)),
    )
    return counts, names


def run_unit(path, outdir, probe=True, rlimit=None, timeout=600):
    """-> result dict; raises LostAnchor / vxgen.UnitError"""
    res = dict(unit=os.path.basename(path), status="undecided", errors=[], tool_errors=[], functions=[], verified=0,
               smt_ms=0, wall_s=0.0, probe=None)
    meta, rs, lines, logs = vxgen.generate(path, outdir)
    res["unit"] = meta["unit"]
    res["properties"] = meta["properties"]
    res["abstraction"] = meta["abstraction"]
    res["entry_assumptions"] = meta["entry_assumptions"]
    res["extracted"] = logs
    res["generated_file"] = rs
    res["trusted_counts"], res["trusted_names"] = trusted_scan(lines)
    extra = ["--rlimit", str(rlimit)] if rlimit else []
    r = run_verus(rs, extra, timeout)
    res["wall_s"] = round(r["wall"], 2)
    res["checker_cmd"] = r["cmd"]
    if r["timeout"] or r["summary"] is None:
        res["tool_errors"].append(dict(message="verus timeout or no JSON output", rendered=r["stderr"][-3000:]))
        return res
    vr = r["summary"].get("verification-results", {})
    res["verified"] = vr.get("verified", 0)
    res["verus_errors"] = vr.get("errors", 0)
    tm = r["summary"].get("times-ms", {})
    res["smt_ms"] = tm.get("smt", {}).get("total", 0)
    # per-function breakdown for the functions under contract
    under = {}
    for lg in logs:
        if "fn" in lg:
            under[lg["fn"]] = lg
    fb = []
    for mod in tm.get("smt", {}).get("smt-run-module-times", []):
        fb.extend(mod.get("function-breakdown", []))
    res["function_breakdown"] = [dict(function=f["function"], ok=f["success"], smt_us=f.get("time-micros", 0), rlimit=f.get("rlimit", 0)) for f in fb if f.get("mode:") == "exec" or f.get("mode:") == "proof"]
    def collect(rr):
        errs, tools = [], []
        for d in rr["diags"]:
            c = classify(d, lines)
            if c is None:
                continue
            c["obligation"] = obligation_name(meta["unit"], c)
            (errs if c["semantic"] else tools).append(c)
        return errs, tools

    errs, tools = collect(r)
    # A failed proof may be solver instability rather than a semantic failure: retry with other Z3 seeds.
    # An obligation counts as failed only if it fails under every seed (any successful run is a proof).
    res["seed_retries"] = 0
    if errs and not tools and not r["timeout"]:
        for sd in (1, 2):
            r2 = run_verus(rs, extra + ["--smt-option", f"smt.random_seed={sd}"], timeout)
            res["seed_retries"] += 1
            if r2["timeout"] or r2["summary"] is None:
                continue
            e2, t2 = collect(r2)
            if t2:
                continue
            names2 = {e["obligation"] for e in e2}
            errs = [e for e in errs if e["obligation"] in names2]
            if not errs:
                r = r2
                vr = r["summary"].get("verification-results", {})
                res["verified"] = vr.get("verified", 0)
                res["verus_errors"] = vr.get("errors", 0)
                break
    res["errors"].extend(errs)
    res["tool_errors"].extend(tools)
    if vr.get("encountered-vir-error") or (not vr and r.get("rc")):
        res["tool_errors"].append(dict(message="verus front-end error", rendered=r["stderr"][-3000:]))
    if res["tool_errors"]:
        res["status"] = "undecided"
    elif res["errors"]:
        res["status"] = "failed"
    elif vr.get("success"):
        res["status"] = "verified"
    res["functions"] = [dict(file=lg["file"], fn=lg.get("fn") or lg.get("struct") or lg.get("const"), impl=lg.get("impl"), lines=lg["lines"],
                             kind="fn" if "fn" in lg else "type", rewrites=lg.get("rewrites", {})) for lg in logs]
    if probe and res["status"] == "verified":
        res["probe"] = run_probe(path, outdir, timeout)
        if not res["probe"]["ok"]:
            res["status"] = "undecided"
            res["tool_errors"].append(dict(message="vacuity probe: some `false` obligation was PROVED (inconsistent assumptions or unsatisfiable precondition): " + ", ".join(res["probe"]["vacuous"])))
    return res


def run_probe(path, outdir, timeout=600):
    """Vacuity probe: in a copy of the unit, every extracted function gets an impossible postcondition
    (`res is Err` for Result-returning functions, `false` otherwise) and `assert(false)` in front of every
    injected POST assertion.  Each of these must FAIL; one that verifies means the assumptions are
    inconsistent or a precondition is unsatisfiable."""
    import copy
    meta, items = vxgen.parse_unit(path)
    pdir = os.path.join(outdir, "probe")
    probes = []
    new_items = []
    for it in items:
        new_items.append(it)
        if isinstance(it, vxgen.Extract):
            name = it.rename or it.fn
            has_post = any((i["tag"] or "").startswith("POST") for i in it.injects)
            if not it.contract and not has_post:
                continue  # helper extracted without contract: nothing claimed, nothing to probe
            if has_post:
                # asserts are not part of the contract seen by callers: probe in place
                for i in it.injects:
                    if (i["tag"] or "").startswith("POST"):
                        tag = f"VACUITY-PROBE {name} before {i['tag']}"
                        i["lines"].insert(0, (f"        proof {{ assert(false); }} //# {tag}", 0))
                        probes.append(tag)
            else:
                # a changed postcondition would leak into callers: probe on a renamed copy
                cp = copy.deepcopy(it)
                cp.rename = name + "__probe"
                tag = f"VACUITY-PROBE {name} end"
                probes.append(tag)
                cp.contract = strip_ensures(cp.contract)
                cp.contract.append((f"    ensures PROBE_POST //# {tag}", 0))
                cp._probe = True
                new_items.append(cp)
    items = new_items
    # regenerate with modified items
    lines = []
    lines.append(vxgen.Line("#![allow(unused)]", "gen", "", 0))
    lines.append(vxgen.Line("use vstd::prelude::*;", "gen", "", 0))
    for u in (meta.get("uses") or ["std::collections::HashMap"]):
        lines.append(vxgen.Line("use %s;" % u, "gen", "", 0))
    lines.append(vxgen.Line("verus! {", "gen", "", 0))
    pitems = []
    for p in meta["prelude"]:
        _, its = vxgen.parse_unit(os.path.join(vxgen.HERE, "prelude", p))
        pitems.extend(its)
    for it in pitems + items:
        if isinstance(it, vxgen.Line):
            lines.append(it)
        else:
            rl = it.render()
            if getattr(it, "_probe", False):
                sig = next(l for l in rl if l.kind == "repo" and " fn " in " " + l.text)
                is_res = re.search(r"->\s*\(res:\s*(?:core::result::|std::result::)?Result<", sig.text) is not None
                for l in rl:
                    if "PROBE_POST" in l.text:
                        l.text = l.text.replace("PROBE_POST", "res is Err" if is_res else "false")
            lines.extend(rl)
    lines.append(vxgen.Line("} // verus!", "gen", "", 0))
    lines.append(vxgen.Line("fn main() {}", "gen", "", 0))
    os.makedirs(pdir, exist_ok=True)
    rs = os.path.join(pdir, meta["unit"] + ".rs")
    with open(rs, "w") as f:
        f.write("\n".join(l.text for l in lines) + "\n")
    r = run_verus(rs, [], timeout, multiple_errors=100)
    failed_tags = set()
    broken = []
    for d in r["diags"]:
        c = classify(d, lines)
        if c:
            for t in c["tags"]:
                failed_tags.add(t)
            if not c["semantic"]:
                # running out of resources while trying to prove `false` means the false obligation was NOT proved:
                # the probes of that function count as refuted (the unit itself verified within the limit)
                if re.search(r"rlimit|resource limit", c["message"], re.I) and c.get("fn"):
                    base = c["fn"][:-len("__probe")] if c["fn"].endswith("__probe") else c["fn"]
                    for p in probes:
                        if p.startswith(f"VACUITY-PROBE {base} "):
                            failed_tags.add(p)
                    continue
                broken.append(c["message"][:200])
    if broken:
        return dict(ok=False, probes=len(probes), refuted=0, vacuous=["probe file did not compile: " + "; ".join(broken[:3])], wall_s=round(r["wall"], 2))
    vac = [p for p in probes if p not in failed_tags]
    return dict(ok=not vac and not r["timeout"], probes=len(probes), refuted=len(probes) - len(vac), vacuous=vac, wall_s=round(r["wall"], 2))


def strip_ensures(contract):
    """drop the ensures clauses of a contract, keep requires/decreases"""
    out = []
    mode = None
    for t, ul in contract:
        s = t.strip()
        m = re.match(r"(requires|ensures|decreases|recommends|opens_invariants|no_unwind)\b", s)
        if m:
            mode = m.group(1)
        if mode != "ensures":
            out.append((t, ul))
    return out


if __name__ == "__main__":
    try:
        r = run_unit(sys.argv[1], sys.argv[2] if len(sys.argv) > 2 else "/tmp/vxout")
    except LostAnchor as e:
        print("LOST-ANCHOR:", e)
        sys.exit(2)
    print(json.dumps({k: v for k, v in r.items() if k not in ("extracted", "trusted_names", "function_breakdown")}, indent=1)[:6000])
    print("STATUS", r["status"], "verified", r["verified"], "errors", len(r["errors"]), "tool", len(r["tool_errors"]), "probe", r["probe"])
