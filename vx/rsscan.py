"""Minimal Rust lexical scanner used by the extractors (Verus and Kani engines).

mask(src) returns a string of the same length in which the *contents* of string
literals, char literals and comments are replaced by blanks (newlines kept), so
that brace matching and anchor regexes never look inside them.
"""
import re


class LostAnchor(Exception):
    """An anchor (function, impl, loop, line) was not found or is ambiguous.
    Callers turn this into exit 2 (undecided), never into a VIOLATION."""


def mask(src: str) -> str:
    out = list(src)
    i, n = 0, len(src)

    def blank(a, b):
        for k in range(a, b):
            if out[k] != "\n":
                out[k] = " "

    while i < n:
        c = src[i]
        if src.startswith("//", i):
            j = src.find("\n", i)
            j = n if j < 0 else j
            blank(i, j)
            i = j
        elif src.startswith("/*", i):
            depth, j = 1, i + 2
            while j < n and depth:
                if src.startswith("/*", j):
                    depth += 1
                    j += 2
                elif src.startswith("*/", j):
                    depth -= 1
                    j += 2
                else:
                    j += 1
            blank(i, j)
            i = j
        elif c == '"' or (c in "rb" and re.match(r'(?:b?r#*"|b")', src[i:i + 8]) and not (i > 0 and (src[i - 1].isalnum() or src[i - 1] == "_"))):
            m = re.match(r'(b?r)(#*)"', src[i:])
            if m:
                hashes = m.group(2)
                start = i + m.end()
                endtok = '"' + hashes
                j = src.find(endtok, start)
                j = n if j < 0 else j
                blank(start, j)
                i = j + len(endtok)
            else:
                start = i + (2 if c == "b" else 1)
                j = start
                while j < n and src[j] != '"':
                    j += 2 if src[j] == "\\" else 1
                blank(start, j)
                i = j + 1
        elif c == "'":
            # char literal or lifetime
            m = re.match(r"'(?:\\x[0-9a-fA-F]{2}|\\u\{[0-9a-fA-F_]+\}|\\.|[^\\'])'", src[i:])
            if m:
                blank(i + 1, i + m.end() - 1)
                i += m.end()
            else:
                i += 1
        else:
            i += 1
    return "".join(out)


OPEN = {"(": ")", "[": "]", "{": "}"}
CLOSE = {v: k for k, v in OPEN.items()}


def match_close(msk: str, i: int) -> int:
    """msk[i] is an opening delimiter; return index of its matching closer."""
    assert msk[i] in OPEN, (msk[i], i)
    stack = [msk[i]]
    j = i + 1
    n = len(msk)
    while j < n:
        ch = msk[j]
        if ch in OPEN:
            stack.append(ch)
        elif ch in CLOSE:
            if not stack or stack[-1] != CLOSE[ch]:
                raise LostAnchor(f"unbalanced delimiter at offset {j}")
            stack.pop()
            if not stack:
                return j
        j += 1
    raise LostAnchor(f"unclosed delimiter at offset {i}")


def line_of(src: str, off: int) -> int:
    """1-based line number of offset."""
    return src.count("\n", 0, off) + 1


def find_block_after(msk: str, start: int) -> int:
    """index of the first '{' at paren/bracket depth 0 after start (a fn/impl/loop body opener)."""
    depth = 0
    j = start
    n = len(msk)
    while j < n:
        ch = msk[j]
        if ch in "([":
            depth += 1
        elif ch in ")]":
            depth -= 1
        elif ch == "{" and depth == 0:
            return j
        elif ch == ";" and depth == 0:
            raise LostAnchor("item has no body")
        j += 1
    raise LostAnchor("no block found")


def find_item(src: str, msk: str, header_re: str, lo: int = 0, hi: int = None):
    """Find exactly one match of header_re (applied to the mask) in [lo,hi); return (match_start, open_brace, close_brace)."""
    hi = len(src) if hi is None else hi
    ms = [m for m in re.finditer(header_re, msk[lo:hi], flags=re.M)]
    if len(ms) != 1:
        raise LostAnchor(f"anchor /{header_re}/ matched {len(ms)} times (need exactly 1)")
    s = lo + ms[0].start()
    ob = find_block_after(msk, lo + ms[0].end() - 1 if msk[lo + ms[0].end() - 1] == "{" else lo + ms[0].end())
    cb = match_close(msk, ob)
    return s, ob, cb


def find_fn(src: str, msk: str, name: str, impl: str = None):
    """Locate `fn name` (optionally inside an impl block whose header is exactly `impl HEADER {`).
    Several impl blocks may match the header; the function must be found exactly once overall.
    Returns dict(sig_start, open, close, impl_range)."""
    ranges = []
    if impl:
        if impl.startswith("trait "):   # a default method of a trait: `impl trait NAME`
            hdr = r"^[ \t]*(?:pub(?:\([a-z: ]+\))?\s+)?trait\s+" + re.escape(impl.split()[1]) + r"\b[^{;]*\{"
        else:
            hdr = r"^[ \t]*(?:unsafe\s+)?impl(?:<[^>{]*>)?\s+" + impl_header_re(impl) + r"\s*(?:where[^{]*)?\{"
        for m in re.finditer(hdr, msk, flags=re.M):
            ob = m.end() - 1
            cb = match_close(msk, ob)
            ranges.append((ob + 1, cb, (m.start(), ob, cb)))
        if not ranges:
            raise LostAnchor(f"impl {impl}: no such impl block")
    else:
        ranges.append((0, len(src), None))
    fn_re = r"^[ \t]*(?:pub(?:\([a-z: ]+\))?\s+)?(?:const\s+)?(?:unsafe\s+)?fn\s+" + re.escape(name) + r"\s*(?:<[^({]*>)?\s*\("
    cands = []
    for lo, hi, rng in ranges:
        for m in re.finditer(fn_re, msk[lo:hi], flags=re.M):
            pos = lo + m.start()
            if depth_at(msk, lo, pos) == 0:
                cands.append((lo, m, rng))
    if len(cands) != 1:
        raise LostAnchor(f"fn {name}{' in impl ' + impl if impl else ''}: {len(cands)} candidates (need exactly 1)")
    lo, m, impl_rng = cands[0]
    sig_start = lo + m.start()
    ob = find_block_after(msk, lo + m.end() - 1)
    cb = match_close(msk, ob)
    return dict(sig_start=sig_start, open=ob, close=cb, impl_range=impl_rng)


def impl_header_re(impl: str) -> str:
    # "Trait for Type" or "Type"; whitespace-insensitive
    parts = impl.split()
    return r"\s+".join(re.escape(p) for p in parts)


def depth_at(msk: str, lo: int, pos: int) -> int:
    d = 0
    for ch in msk[lo:pos]:
        if ch == "{":
            d += 1
        elif ch == "}":
            d -= 1
    return d


def replace_macro_calls(src: str, msk: str, names, repl, lo=0, hi=None):
    """Replace every `name!(...)`/`name!{...}`/`name![...]` in [lo,hi) by repl(name, args_text)
    keeping the number of newlines (so line numbers stay aligned). Returns (new_src, count)."""
    hi = len(src) if hi is None else hi
    pat = re.compile(r"\b(" + "|".join(re.escape(x) for x in names) + r")!\s*([\(\[\{])")
    out = []
    pos = lo
    cnt = 0
    while True:
        m = pat.search(msk, pos, hi)
        if not m:
            break
        ob = m.end() - 1
        cb = match_close(msk, ob)
        out.append(src[pos:m.start()])
        text = repl(m.group(1), src[ob + 1:cb])
        nl = src.count("\n", m.start(), cb + 1)
        out.append(text + "\n" * nl)
        pos = cb + 1
        cnt += 1
    out.append(src[pos:hi])
    return src[:lo] + "".join(out) + src[hi:], cnt
