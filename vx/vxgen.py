"""Verus unit generator: prelude + mechanically extracted real functions + spliced contracts.

A unit file (vx/units/*.vu) is Verus text with `//@` directives.  Everything outside an
extract block is copied verbatim (spec functions, lemmas).  An extract block names a function
(or struct / const) of /repo; its text is taken from the *current working tree* on every run.

Directives
    //! unit: NAME                     //! properties: C01 C02
    //! prelude: core.rs zmod.rs       //! abstraction: free text
    //@ struct FILE :: NAME            copy a struct/enum definition (attributes, docs, visibility dropped)
    //@ extract FILE :: [impl HEADER ::] fn NAME
    //@   rename NEWNAME               emit under another name (two contracts on one text)
    //@   contract                     following lines are spliced between signature and body
    //@   loop N                       following lines spliced between the N-th loop header and its `{`
    //@   closure N                    contract of the N-th typed closure (`|..| -> T {`)
    //@   inject before|after [#K] `LINE` [:: TAG]   ghost lines next to the K-th line whose trimmed text is LINE
    //@   arm `HEADER {`                          lift the block of ONE match arm (tail position, checked) into a function; needs `signature` and `rename` (S6)
    //@   closurefn NAME                          lift the body of the closure `let [mut] NAME = |..| -> T { .. };` into a function; its captured
    //@                                           variables become parameters (declared with `signature`); needs `signature` and `rename` (S7)
    //@   cutclosure NAME                         in the enclosing function: the closure definition is removed (its calls are redirected to the lifted
    //@                                           function by declared rewrites that pass the captured variables explicitly) (S7)
    //@   inject blockend [#K] `LINE`               ghost lines before the closing brace of the block that LINE opens (e.g. end of a loop body)
    //@   rewrite COUNT `OLD` => `NEW` [:: LABEL]    declared single-line rewrite, must match COUNT times
    //@ end

Always-on rewrites (counted and reported):
    S1 visibility/attributes/doc comments dropped; `impl Trait for X` -> `impl X`
    S2 `-> T` -> `-> (res: T)` (Verus needs a named result)
    S3 `runtime_error!(..)` -> `verr()`   (error messages are not verified)
    S4 `panic!(..)`/`unreachable!(..)`/`unimplemented!(..)` -> `vpanic()` (requires false: reachable panic = failed obligation)
    S8 `NAME.iter().product()` / `NAME.iter().product::<u64>()` left after the declared rewrites -> `product_slice(&NAME)` (trusted helper with the spec prod(NAME@); iterator adapters are outside the Verus subset)
"""
import json
import os
import re
import sys

from rsscan import LostAnchor, find_block_after, find_fn, find_item, line_of, mask, match_close, replace_macro_calls

REPO = os.environ.get("VERIF_REPO", "/repo")
HERE = os.path.dirname(os.path.abspath(__file__))


class UnitError(Exception):
    """malformed unit file (a bug in /verif, exit 2)"""


class Line:
    __slots__ = ("text", "kind", "file", "line", "fn", "tag")

    def __init__(self, text, kind, file, line, fn=None, tag=None):
        self.text, self.kind, self.file, self.line, self.fn, self.tag = text, kind, file, line, fn, tag

    def origin(self):
        return dict(kind=self.kind, file=self.file, line=self.line, fn=self.fn, tag=self.tag)


def read_repo(rel):
    p = os.path.join(REPO, rel)
    if not os.path.exists(p):
        raise LostAnchor(f"file {rel} not found in {REPO}")
    return open(p, encoding="utf-8").read()


def strip_attrs_and_vis(text):
    """S1 on an item header."""
    text = re.sub(r"^\s*#\[[^\]]*\]\s*$", "", text, flags=re.M)
    text = re.sub(r"^\s*///.*$", "", text, flags=re.M)
    text = re.sub(r"\bpub\([a-z: ]+\)\s+", "pub ", text)
    return text


def find_closure(src_body, msk_body, name, where):
    """locate `let [mut] NAME = |params| -> T { body };` : returns (start of `let`, open brace, close brace, end incl. `;`)"""
    hits = list(re.finditer(r"\blet\s+(?:mut\s+)?" + re.escape(name) + r"\s*=\s*\|[^|;{}]*\|\s*(?:->\s*[^{;]+?\s*)?\{", msk_body))   # `-> T` is optional (unit-valued closures)
    if len(hits) != 1:
        raise LostAnchor(f"{where}: closure `{name}` (typed: `let [mut] {name} = |..| -> T {{`) found {len(hits)} times")
    m = hits[0]
    ob = m.end() - 1
    cb = match_close(msk_body, ob)
    q = cb + 1
    while q < len(msk_body) and msk_body[q] in " \t\n":
        q += 1
    if q >= len(msk_body) or msk_body[q] != ";":
        raise LostAnchor(f"{where}: closure `{name}`: definition is not a `let` statement ending in `;`")
    return m.start(), ob, cb, q


class Extract:
    def __init__(self, unit, file, impl, fn, uline):
        self.unit, self.file, self.impl, self.fn, self.uline = unit, file, impl, fn, uline
        self.rename = None
        self.contract = []      # [(text, uline)]
        self.attrs = []         # Verus attributes put in front of the fn (e.g. exec_allows_no_decreases_clause)
        self.signature = []     # replacement signature (generic/trait plumbing the verifier cannot read), logged as S5
        self.loops = {}         # n -> [(text, uline)]
        self.closures = {}      # n -> [(text, uline)]
        self.injects = []       # dict(where, k, anchor, tag, lines)
        self.rewrites = []      # dict(count, old, new, label)
        self.droparms = []      # dict(header, label): match arm / block whose body is replaced by vpanic()
        self.arm = None         # header of ONE match arm (in tail position) whose block is lifted into a function of its own (S6)
        self.closurefn = None   # name of ONE closure whose body is lifted into a function of its own (S7)
        self.cutclosures = []   # names of closures whose definition is removed from this function (S7)
        self.log = {}

    def render(self):
        src = read_repo(self.file)
        msk = mask(src)
        loc = find_fn(src, msk, self.fn, self.impl)
        s, ob, cb = loc["sig_start"], loc["open"], loc["close"]
        first_line = line_of(src, s)
        self.log = dict(file=self.file, fn=self.fn, emitted=self.rename or self.fn, impl=self.impl, lines=[first_line, line_of(src, cb)], rewrites={})
        if self.arm:
            # S6: the block of one match arm becomes the body of a function whose parameters (declared with `signature`) are the arm's
            # free variables.  Sound when the match is the tail expression of the enclosing function (checked): `return` and the block's
            # value then mean the same in both places.
            seg = src[ob:cb + 1]
            hits = [m.start() for m in re.finditer(re.escape(self.arm), seg)]
            if len(hits) != 1:
                raise LostAnchor(f"{self.file}::{self.fn}: arm header `{self.arm}` matched {len(hits)} times")
            aob = ob + hits[0] + len(self.arm) - 1
            if src[aob] != "{" or not self.signature or not self.rename:
                raise UnitError("arm: header must end with `{`, and `signature` and `rename` are required")
            acb = match_close(msk, aob)
            depth, q = 0, aob - 1
            while q > ob:
                if msk[q] == "}": depth += 1
                elif msk[q] == "{":
                    if depth == 0: break
                    depth -= 1
                q -= 1
            enc_close = match_close(msk, q)
            if msk[enc_close + 1:cb].strip(" \n\t}") != "":
                raise LostAnchor(f"{self.file}::{self.fn}: arm `{self.arm}`: the enclosing match is not the tail expression of the function")
            self.log["rewrites"]["S6_arm_lifted"] = dict(header=self.arm, lines=[line_of(src, aob), line_of(src, acb)], enclosing_fn=self.fn, tail_position=True)
            self.log["lines"] = [line_of(src, aob), line_of(src, acb)]
            ob, cb = aob, acb
            first_line = line_of(src, aob)
            s = aob
        if self.closurefn:
            # S7: the body of a closure becomes the body of a function whose extra parameters (declared with `signature`) are the variables
            # the closure captures.  `return` and `?` inside a closure leave the closure, exactly as they leave the lifted function.
            if not self.signature or not self.rename:
                raise UnitError("closurefn: `signature` and `rename` are required")
            ls0, cob, ccb, cend = find_closure(src[ob:cb + 1], msk[ob:cb + 1], self.closurefn, f"{self.file}::{self.fn}")
            self.log["rewrites"]["S7_closure_lifted"] = dict(closure=self.closurefn, lines=[line_of(src, ob + ls0), line_of(src, ob + cend)], enclosing_fn=self.fn,
                                                             original_header=" ".join(src[ob + ls0:ob + cob].split()))
            self.log["lines"] = [line_of(src, ob + cob), line_of(src, ob + ccb)]
            ob, cb = ob + cob, ob + ccb
            first_line = line_of(src, ob)
            s = ob
        # ----- signature (S1, S2)
        sig = src[s:ob]
        sig = re.sub(r"//[^\n]*", "", sig)     # line comments between parameters would swallow the rest of the one-line signature
        sig_nl = sig.count("\n")
        sigm = msk[s:ob]
        sig = re.sub(r"^\s*(?:pub(?:\([a-z: ]+\))?\s+)?", "pub ", sig, count=1)
        # return type
        arrow = find_top_arrow(sig)
        if arrow is not None:
            ret = sig[arrow + 2:].strip()
            sig = sig[:arrow] + "-> (res: " + ret + ")"
            self.log["rewrites"]["S2"] = 1
        if self.rename:
            sig = re.sub(r"\bfn\s+" + re.escape(self.fn) + r"\b", "fn " + self.rename, sig, count=1)
        sig = " ".join(sig.split())  # one line; origin = first line of the signature
        if self.signature:
            self.log["rewrites"]["S5_signature_replaced"] = dict(old=sig, new=" ".join(t.strip() for t, _ in self.signature))
            sig = " ".join(t.strip() for t, _ in self.signature)
            if self.rename:
                sig = re.sub(r"\bfn\s+\w+", "fn " + self.rename, sig, count=1)
        # ----- body: char-level rewrites keeping newline count
        body = src[ob:cb + 1]
        bm = msk[ob:cb + 1]
        body, n3 = replace_macro_calls(body, bm, ["runtime_error"], lambda n, a: "verr()")
        bm = mask(body)
        body, n4 = replace_macro_calls(body, bm, ["panic", "unreachable", "unimplemented", "todo"], lambda n, a: "vpanic()")
        self.log["rewrites"]["S3"] = n3
        self.log["rewrites"]["S4"] = n4
        for da in self.droparms:
            bm = mask(body)
            hits = [m.start() for m in re.finditer(re.escape(da["header"]), body)]
            if len(hits) != 1:
                raise LostAnchor(f"{self.file}::{self.fn}: droparm header `{da['header']}` matched {len(hits)} times")
            ob2 = hits[0] + len(da["header"]) - 1
            if body[ob2] != "{":
                raise UnitError("droparm header must end with `{`")
            cb2 = match_close(bm, ob2)
            nl = body.count("\n", ob2, cb2 + 1)
            first = line_of(src, ob) + body.count("\n", 0, ob2)
            body = body[:ob2] + "{ vpanic() }" + "\n" * nl + body[cb2 + 1:]
            self.log["rewrites"].setdefault("dropped_arms", []).append(dict(header=da["header"], lines=[first, first + nl], label=da["label"]))
        for cname in self.cutclosures:
            bm = mask(body)
            ls0, cob, ccb, cend = find_closure(body, bm, cname, f"{self.file}::{self.fn}")
            nl = body.count("\n", ls0, cend + 1)
            first = line_of(src, ob) + body.count("\n", 0, ls0)
            self.log["rewrites"].setdefault("S7_closure_cut", []).append(dict(closure=cname, lines=[first, first + nl], header=" ".join(body[ls0:cob].split())))
            body = body[:ls0] + "\n" * nl + body[cend + 1:]
        for rw in self.rewrites:
            c = body.count(rw["old"])
            if rw["count"] is not None and c != rw["count"]:
                raise LostAnchor(f"{self.file}::{self.fn}: rewrite `{rw['old']}` matched {c} times, declared {rw['count']}")
            if rw["old"].count("\n") != rw["new"].count("\n"):
                raise UnitError("rewrite must keep line count")
            body = body.replace(rw["old"], rw["new"])
            self.log["rewrites"].setdefault("declared", []).append(dict(old=rw["old"], new=rw["new"], count=c, label=rw["label"]))
        # S8: iterator product of a named u64 vector/slice not already covered by a declared rewrite (the helper, with its spec, has to be in the unit's prelude)
        body, n8 = re.subn(r"\b(\w+)\.iter\(\)\.product(?:::<u64>)?\(\)", r"product_slice(&\1)", body)
        if n8:
            self.log["rewrites"]["S8"] = n8
        bm = mask(body)
        body_first_line = line_of(src, ob)
        # ----- collect insertions: (offset_in_body, [Line...], replace_len)
        ins = []
        fnname = self.rename or self.fn
        # loops
        loop_pos = [m.start() for m in re.finditer(r"\b(?:for|while|loop)\b", bm)]
        for n, lines in self.loops.items():
            if isinstance(n, int):
                if n < 1 or n > len(loop_pos):
                    raise LostAnchor(f"{self.file}::{self.fn}: loop {n} not found ({len(loop_pos)} loops)")
                lp = loop_pos[n - 1]
            else:
                hdr, k = n
                hits = [p for p in loop_pos if norm(body[p:body.find("\n", p) if body.find("\n", p) >= 0 else len(body)]) == norm(hdr)]
                if (k is None and len(hits) != 1) or (k is not None and k > len(hits)):
                    raise LostAnchor(f"{self.file}::{self.fn}: loop header `{hdr}` matched {len(hits)} loops")
                lp = hits[0] if k is None else hits[k - 1]
            b = find_block_after(bm, lp)
            ins.append((b, [Line(t, "unit", self.unit, ul, fnname, tag_of(t)) for t, ul in lines], 0))
        # closures
        clos = list(re.finditer(r"\|[^|;{}]*\|\s*->\s*([^{]+?)\s*\{", bm))
        for n, lines in self.closures.items():
            if n < 1 or n > len(clos):
                raise LostAnchor(f"{self.file}::{self.fn}: closure {n} not found ({len(clos)} typed closures)")
            m = clos[n - 1]
            ret = body[m.start(1):m.end(1)]
            new_lines = [Line("(cres: " + ret + ")", "unit", self.unit, lines[0][1] if lines else self.uline, fnname)]
            new_lines += [Line(t, "unit", self.unit, ul, fnname, tag_of(t)) for t, ul in lines]
            ins.append((m.start(1), new_lines, m.end(1) - m.start(1)))
        # injects
        body_lines = body.split("\n")
        offs = []
        o = 0
        for bl in body_lines:
            offs.append(o)
            o += len(bl) + 1
        for inj in self.injects:
            if inj["where"] == "start":
                ls = [Line(t, "unit", self.unit, ul, fnname, tag_of(t) or inj["tag"]) for t, ul in inj["lines"]]
                ins.append((1, ls, 0))     # right after the opening brace of the body
                continue
            hits = [i for i, bl in enumerate(body_lines) if norm(bl) == norm(inj["anchor"])]
            if inj["k"] is None:
                if len(hits) != 1:
                    raise LostAnchor(f"{self.file}::{self.fn}: inject anchor `{inj['anchor']}` matched {len(hits)} lines (need 1 or use #K)")
                i = hits[0]
            else:
                if inj["k"] > len(hits):
                    raise LostAnchor(f"{self.file}::{self.fn}: inject anchor `{inj['anchor']}` #{inj['k']} not found ({len(hits)} hits)")
                i = hits[inj["k"] - 1]
            if inj["where"] == "blockend":
                # before the closing brace of the block that the anchor line opens and leaves open
                lstart, lend = offs[i], offs[i] + len(body_lines[i])
                stack = []
                for q0 in range(lstart, lend):
                    if bm[q0] == "{": stack.append(q0)
                    elif bm[q0] == "}" and stack: stack.pop()
                if not stack:
                    raise UnitError("inject blockend: anchor line must open a block")
                ob2 = stack[-1]     # the last brace opened on the anchor line and still open at its end
                depth, q = 0, ob2
                while q < len(bm):
                    if bm[q] == "{": depth += 1
                    elif bm[q] == "}":
                        depth -= 1
                        if depth == 0: break
                    q += 1
                if depth != 0:
                    raise LostAnchor(f"{self.file}::{self.fn}: inject blockend: unbalanced block after `{inj['anchor']}`")
                # start of the line holding the closing brace (if only whitespace precedes it)
                ls0 = body.rfind("\n", 0, q) + 1
                pos = ls0 if body[ls0:q].strip() == "" else q
            else:
                pos = offs[i] if inj["where"] == "before" else offs[i] + len(body_lines[i])
            ls = [Line(t, "unit", self.unit, ul, fnname, tag_of(t) or inj["tag"]) for t, ul in inj["lines"]]
            ins.append((pos, ls, 0))
        # ----- assemble
        out = []
        for at in self.attrs:
            out.append(Line(at, "unit", self.unit, self.uline, fnname))
        out.append(Line(sig, "repo", self.file, first_line, fnname))
        for t, ul in self.contract:
            out.append(Line(t, "unit", self.unit, ul, fnname, tag_of(t)))
        ins.sort(key=lambda x: x[0])
        pos = 0
        cur_line = body_first_line
        buf = ""

        def flush_text(txt):
            nonlocal cur_line, buf
            parts = txt.split("\n")
            for k, p in enumerate(parts):
                buf += p
                if k < len(parts) - 1:
                    out.append(Line(buf, "repo", self.file, cur_line, fnname))
                    buf = ""
                    cur_line += 1

        for off, ls, rlen in ins:
            flush_text(body[pos:off])
            if buf.strip():
                out.append(Line(buf, "repo", self.file, cur_line, fnname))
            buf = ""
            out.extend(ls)
            pos = off + rlen
        flush_text(body[pos:])
        if buf:
            out.append(Line(buf, "repo", self.file, cur_line, fnname))
        # impl wrapper (a lifted arm is a free function)
        if self.impl and not self.arm and not self.closurefn and not self.impl.startswith("trait "):   # a trait's default method is emitted as a free function (its signature is replaced)
            ty = self.impl.split(" for ")[-1].strip()
            out.insert(0, Line(f"impl {ty} {{", "repo", self.file, line_of(src, loc["impl_range"][0]), fnname))
            out.append(Line("}", "repo", self.file, line_of(src, loc["impl_range"][2]), fnname))
            self.log["rewrites"]["S1"] = 1
        return out


def find_top_arrow(sig):
    m = mask(sig)
    depth = 0
    i = 0
    last = None
    while i < len(m):
        ch = m[i]
        if ch in "([<":
            depth += 1
        elif ch in ")]":
            depth -= 1
        elif ch == ">" and not (i > 0 and m[i - 1] == "-"):
            depth -= 1
        elif m.startswith("->", i) and depth == 0:
            last = i
        i += 1
    return last


def norm(s):
    return " ".join(s.split())


def tag_of(t):
    m = re.search(r"//#\s*(.*)$", t)
    return m.group(1).strip() if m else None


class StructExtract:
    def __init__(self, unit, file, name, uline, extra_attrs=""):
        self.unit, self.file, self.name, self.uline, self.extra = unit, file, name, uline, extra_attrs
        self.log = {}

    def render(self):
        src = read_repo(self.file)
        msk = mask(src)
        hdr = r"^[ \t]*(?:pub(?:\([a-z: ]+\))?\s+)?(?:struct|enum)\s+" + re.escape(self.name) + r"\b[^;{(]*\{"
        s, ob, cb = find_item(src, msk, hdr)
        text = src[s:cb + 1]
        first = line_of(src, s)
        out = []
        if self.extra:
            out.append(Line(self.extra, "unit", self.unit, self.uline))
        is_struct = re.match(r"\s*(?:pub(?:\([a-z: ]+\))?\s+)?struct\b", text) is not None
        for k, l in enumerate(text.split("\n")):
            l2 = re.sub(r"\bpub\([a-z: ]+\)\s+", "pub ", l)
            if re.match(r"\s*(#\[|///|//)", l2):
                l2 = ""
            if k == 0 and not re.match(r"\s*pub\b", l2):
                l2 = "pub " + l2.lstrip()          # S1: visibility is dropped, everything is public inside the unit
            elif is_struct and k > 0 and re.match(r"\s+[a-z_][A-Za-z0-9_]*\s*:", l2):
                l2 = re.sub(r"^(\s+)", r"\1pub ", l2, count=1)
            out.append(Line(l2, "repo", self.file, first + k, self.name))
        self.log = dict(file=self.file, struct=self.name, lines=[first, line_of(src, cb)], rewrites={"S1": 1})
        return out


class NameInj:
    """//@ nameinj FILE :: STRUCT   (property C08: two parameterisations of one custom operation never collide)
    Emits, from the CURRENT text of /repo: the struct; the REAL body of `impl CustomOperationBody for STRUCT :: fn get_name` with the
    `format!(LIT, e1, ..)` / `"LIT".to_owned()` expression turned into `vfmt(LIT, &[fa(&(e1)), ..])` (S9: the formatting machinery is the
    stub vfmt whose result determines its argument list); a spec function name_args() lifted MECHANICALLY from that argument list; the contract
    `fmt_args(res@) == self.name_args()` on the real body; and the lemma name_injective_STRUCT: equal argument lists imply equal structs."""

    def __init__(self, unit, file, name, uline):
        self.unit, self.file, self.name, self.uline = unit, file, name, uline
        self.log = {}

    def render(self):
        st = StructExtract(self.unit, self.file, self.name, self.uline)
        try:
            out = st.render()
            unit_struct = False
        except LostAnchor:
            out = [Line(f"pub struct {self.name} {{}}", "unit", self.unit, self.uline)]   # `struct X;`
            unit_struct = True
        src = read_repo(self.file)
        msk = mask(src)
        loc = find_fn(src, msk, "get_name", "CustomOperationBody for " + self.name)
        ob, cb = loc["open"], loc["close"]
        body = src[ob + 1:cb]
        first = line_of(src, ob)
        bm = mask(body)
        if ";" in bm:
            raise LostAnchor(f"{self.file}::{self.name}::get_name: body is not a single expression (S9 supports format!(..) and a literal)")
        btxt = body.strip()
        m_lit = re.match(r'^(?:String::from\(\s*("(?:[^"\\]|\\.)*")\s*\)|("(?:[^"\\]|\\.)*")\s*\.\s*(?:to_owned|to_string|into)\(\))$', btxt, flags=re.S)
        m_fmt = re.match(r'^format!\s*([({])(.*)[)}]$', btxt, flags=re.S)
        if m_lit:
            lit, args = m_lit.group(1) or m_lit.group(2), []
        elif m_fmt:
            inner = m_fmt.group(2)
            im = mask(inner)
            parts, depth, last = [], 0, 0
            for k, ch in enumerate(im):
                if ch in "([{":
                    depth += 1
                elif ch in ")]}":
                    depth -= 1
                elif ch == "," and depth == 0:
                    parts.append(inner[last:k])
                    last = k + 1
            parts.append(inner[last:])
            parts = [x.strip() for x in parts if x.strip()]
            lit, args = parts[0], parts[1:]
            if not lit.startswith('"'):
                raise LostAnchor(f"{self.file}::{self.name}::get_name: format! without a literal template")
            caps = re.findall(r"(?<!\{)\{([A-Za-z_][A-Za-z0-9_]*)(?::[^}]*)?\}", lit)   # inline captures {x} / {x:?}
            args = caps + args
        else:
            raise LostAnchor(f"{self.file}::{self.name}::get_name: unsupported body shape (S9 supports format!(..) and a literal)")
        nm = self.name
        self.template = lit
        spec_args = ", ".join("arg(" + a + ")" for a in args)
        exec_args = ", ".join("fa(&(" + a + "))" for a in args)
        L = lambda t, tag=None: Line(t, "unit", self.unit, self.uline, "get_name_" + nm, tag)
        out.append(L(f"impl {nm} {{"))
        out.append(L(f"    pub open spec fn name_args(&self) -> Seq<FmtArg> {{ seq![{spec_args}] }}   // lifted mechanically from the argument list of get_name"))
        out.append(L(f"    pub fn get_name(&self) -> (res: String)"))
        tag1 = "C08 the-name-is-built-from-exactly-these-arguments"
        out.append(L(f"        ensures fmt_args(res@) == self.name_args(), //# {tag1}", tag1))
        nl = body.count("\n")
        out.append(Line("    { vfmt(" + lit.replace("\n", " ") + ", &[" + exec_args + "]) }" , "repo", self.file, first, "get_name_" + nm))
        out.append(L("}"))
        tag2 = "C08 two-parameterisations-of-one-operation-never-get-the-same-name_(every-field-of-the-operation-is-an-argument-of-its-name)"
        out.append(Line(f"pub proof fn name_injective_{nm}(a: {nm}, b: {nm})", "unit", self.unit, self.uline, "name_injective_" + nm))
        out.append(Line(f"    requires a.name_args() == b.name_args(),", "unit", self.unit, self.uline, "name_injective_" + nm))
        out.append(Line(f"    ensures a == b, //# {tag2}", "unit", self.unit, self.uline, "name_injective_" + nm, tag2))
        sub = lambda e, v: re.sub(r"\bself\b", v, e)
        hints = " ".join(f"assert(a.name_args()[{k}] == arg({sub(e, 'a')})); assert(b.name_args()[{k}] == arg({sub(e, 'b')})); ax_arg_inj({sub(e, 'a')}, {sub(e, 'b')});" for k, e in enumerate(args))
        out.append(Line("{ " + hints + " }", "unit", self.unit, self.uline, "name_injective_" + nm))
        self.log = [dict(file=self.file, fn="get_name_" + nm, impl="CustomOperationBody for " + nm, lines=[first, line_of(src, cb)], kind="fn",
                         rewrites={"S1": 1, "S9_format_to_vfmt": dict(template=lit[:80], args=args)}),
                    dict(file=self.file, fn="name_injective_" + nm, impl=None, lines=[first, line_of(src, cb)], kind="lemma", rewrites={})]
        return out


class ConstExtract:
    def __init__(self, unit, file, name, uline):
        self.unit, self.file, self.name, self.uline = unit, file, name, uline
        self.log = {}

    def render(self):
        src = read_repo(self.file)
        msk = mask(src)
        ms = list(re.finditer(r"^[ \t]*(?:pub(?:\([a-z: ]+\))?\s+)?(?:const|type)\s+" + re.escape(self.name) + r"\b[^;]*;", msk, flags=re.M))
        if len(ms) != 1:
            raise LostAnchor(f"const/type {self.name} in {self.file}: {len(ms)} matches")
        m = ms[0]
        text = re.sub(r"\bpub\([a-z: ]+\)\s+", "pub ", src[m.start():m.end()])
        if not re.match(r"\s*pub\b", text):
            text = "pub " + text.lstrip()    # S1: visibility dropped
        first = line_of(src, m.start())
        self.log = dict(file=self.file, const=self.name, lines=[first, line_of(src, m.end())], rewrites={"S1": 1})
        return [Line(l, "repo", self.file, first + k, self.name) for k, l in enumerate(text.split("\n"))]


def parse_unit(path):
    """-> dict(meta, items) where items are Line (verbatim), Extract or StructExtract."""
    unit_rel = os.path.relpath(path, os.path.dirname(HERE))
    meta = dict(unit=None, properties=[], prelude=[], abstraction="", entry_assumptions=[])
    items = []
    cur = None
    section = None  # list to append (text, uline) to
    for ln, raw in enumerate(open(path, encoding="utf-8").read().split("\n"), 1):
        s = raw.strip()
        if s.startswith("//!"):
            m = re.match(r"//!\s*(\w+):\s*(.*)$", s)
            if not m:
                continue
            k, v = m.group(1), m.group(2).strip()
            if k == "unit":
                meta["unit"] = v
            elif k == "properties":
                meta["properties"] = v.split()
            elif k == "prelude":
                meta["prelude"] = v.split()
            elif k == "uses":   # `use` lines of the generated file (default: std::collections::HashMap)
                meta["uses"] = v.split()
            elif k == "abstraction":
                meta["abstraction"] += (" " if meta["abstraction"] else "") + v
            elif k == "assumes":
                meta["entry_assumptions"].append(v)
            continue
        if s.startswith("//@"):
            d = s[3:].strip()
            if d.startswith("struct "):
                m = re.match(r"struct\s+(\S+)\s*::\s*(\w+)(?:\s*::\s*(.*))?$", d)
                if not m:
                    raise UnitError(f"{path}:{ln}: bad struct directive")
                items.append(StructExtract(unit_rel, m.group(1), m.group(2), ln, m.group(3) or ""))
                continue
            if d.startswith("nameinj "):
                m = re.match(r"nameinj\s+(\S+)\s*::\s*(\w+)$", d)
                if not m:
                    raise UnitError(f"{path}:{ln}: bad nameinj directive")
                items.append(NameInj(unit_rel, m.group(1), m.group(2), ln))
                continue
            if d.startswith("const "):
                m = re.match(r"const\s+(\S+)\s*::\s*(\w+)$", d)
                if not m:
                    raise UnitError(f"{path}:{ln}: bad const directive")
                items.append(ConstExtract(unit_rel, m.group(1), m.group(2), ln))
                continue
            if d.startswith("extract "):
                m = re.match(r"extract\s+(\S+)\s*::\s*(?:impl\s+(.+?)\s*::\s*)?fn\s+(\w+)$", d)
                if not m:
                    raise UnitError(f"{path}:{ln}: bad extract directive")
                cur = Extract(unit_rel, m.group(1), m.group(2), m.group(3), ln)
                section = None
                continue
            if cur is None:
                raise UnitError(f"{path}:{ln}: directive outside extract block: {d}")
            if d.startswith("arm "):
                m = re.match(r"arm\s+`(.*)`$", d)
                if not m:
                    raise UnitError(f"{path}:{ln}: bad arm directive")
                cur.arm = m.group(1)
                continue
            if d.startswith("closurefn "):
                cur.closurefn = d.split()[1]
                continue
            if d.startswith("cutclosure "):
                cur.cutclosures.append(d.split()[1])
                section = None
                continue
            if d == "end":
                items.append(cur)
                cur = None
                section = None
            elif d.startswith("rename "):
                cur.rename = d.split()[1]
            elif d.startswith("attr "):
                cur.attrs.append(d[5:].strip())
                section = None
            elif d == "contract":
                section = cur.contract
            elif d == "signature":
                section = cur.signature
            elif d.startswith("loop "):
                m = re.match(r"loop\s+(?:(\d+)|(?:#(\d+)\s+)?`(.*)`)\s*$", d)
                if not m:
                    raise UnitError(f"{path}:{ln}: bad loop directive")
                key = int(m.group(1)) if m.group(1) else (m.group(3), int(m.group(2)) if m.group(2) else None)
                section = cur.loops.setdefault(key, [])
            elif d.startswith("closure "):
                section = cur.closures.setdefault(int(d.split()[1]), [])
            elif d.startswith("inject "):
                m0 = re.match(r"inject\s+(start)(?:\s*::\s*(.*))?$", d)
                m = re.match(r"inject\s+(before|after|blockend)\s+(?:#(\d+)\s+)?`(.*)`(?:\s*::\s*(.*))?$", d)
                if m0:
                    inj = dict(where="start", k=None, anchor=None, tag=m0.group(2), lines=[])
                    cur.injects.append(inj)
                    section = inj["lines"]
                    continue
                if not m:
                    raise UnitError(f"{path}:{ln}: bad inject directive")
                inj = dict(where=m.group(1), k=int(m.group(2)) if m.group(2) else None, anchor=m.group(3), tag=m.group(4), lines=[])
                cur.injects.append(inj)
                section = inj["lines"]
            elif d.startswith("droparm "):
                m = re.match(r"droparm\s+`(.*)`(?:\s*::\s*(.*))?$", d)
                if not m:
                    raise UnitError(f"{path}:{ln}: bad droparm directive")
                cur.droparms.append(dict(header=m.group(1), label=m.group(2) or "R8 arm not under contract"))
                section = None
            elif d.startswith("rewrite "):
                m = re.match(r"rewrite\s+(\d+|\*)\s+`(.*)`\s*=>\s*`(.*)`(?:\s*::\s*(.*))?$", d)
                if not m:
                    raise UnitError(f"{path}:{ln}: bad rewrite directive")
                cur.rewrites.append(dict(count=(None if m.group(1) == "*" else int(m.group(1))), old=m.group(2).replace("\\n", "\n"), new=m.group(3).replace("\\n", "\n"), label=m.group(4) or "declared"))
                section = None
            else:
                raise UnitError(f"{path}:{ln}: unknown directive {d}")
            continue
        if cur is not None:
            if section is None:
                if s:
                    raise UnitError(f"{path}:{ln}: text inside extract block outside a section")
                continue
            section.append((raw, ln))
        else:
            items.append(Line(raw, "unit", unit_rel, ln))
    if cur is not None:
        raise UnitError(f"{path}: unterminated extract block")
    if not meta["unit"]:
        meta["unit"] = os.path.splitext(os.path.basename(path))[0]
    return meta, items


def generate(path, outdir):
    """Write <outdir>/<unit>.rs and <unit>.map.json; return (meta, rs_path, map, extracts_log)."""
    meta, items = parse_unit(path)
    lines = []
    lines.append(Line("#![allow(unused)]", "gen", "", 0))
    lines.append(Line("use vstd::prelude::*;", "gen", "", 0))
    for u in (meta.get("uses") or ["std::collections::HashMap"]):
        lines.append(Line("use %s;" % u, "gen", "", 0))
    lines.append(Line("verus! {", "gen", "", 0))
    logs = []
    pitems = []
    for p in meta["prelude"]:
        pp = os.path.join(HERE, "prelude", p)
        _, its = parse_unit(pp)
        for it in its:
            if isinstance(it, Line):
                it.kind = "prelude"
        pitems.extend(its)
    for it in pitems + items:
        if isinstance(it, Line):
            lines.append(it)
        else:
            lines.extend(it.render())
            if isinstance(it.log, list):
                logs.extend(it.log)
            else:
                logs.append(it.log)
    # C08: two DIFFERENT operations must not share a name template (checked on the literal text; formatting is assumed injective in template and arguments).
    # Equal templates produce an obligation nobody can discharge, reported like any failed obligation.
    ninj = [it for it in items if isinstance(it, NameInj) and getattr(it, "template", None) is not None]
    for a in range(len(ninj)):
        for b in range(a + 1, len(ninj)):
            if ninj[a].template == ninj[b].template:
                fnm = f"name_templates_distinct_{ninj[a].name}_{ninj[b].name}"
                tag = "C08 two-different-operations-never-share-a-name-template"
                lines.append(Line(f"pub proof fn {fnm}()", "unit", ninj[b].unit, ninj[b].uline, fnm))
                lines.append(Line(f"    ensures false, //# {tag}", "unit", ninj[b].unit, ninj[b].uline, fnm, tag))
                lines.append(Line("{ } // both operations format " + ninj[a].template[:60].replace("\n", " "), "unit", ninj[b].unit, ninj[b].uline, fnm))
                logs.append(dict(file=ninj[b].file, fn=fnm, impl=None, lines=[0, 0], kind="lemma", rewrites={}))
    lines.append(Line("} // verus!", "gen", "", 0))
    lines.append(Line("fn main() {}", "gen", "", 0))
    os.makedirs(outdir, exist_ok=True)
    rs = os.path.join(outdir, meta["unit"] + ".rs")
    with open(rs, "w", encoding="utf-8") as f:
        f.write("\n".join(l.text for l in lines) + "\n")
    mp = [l.origin() for l in lines]
    with open(os.path.join(outdir, meta["unit"] + ".map.json"), "w") as f:
        json.dump(mp, f)
    return meta, rs, lines, logs


if __name__ == "__main__":
    try:
        meta, rs, lines, logs = generate(sys.argv[1], sys.argv[2] if len(sys.argv) > 2 else "/tmp/vxout")
        print(rs)
        print(json.dumps(logs, indent=1))
    except LostAnchor as e:
        print("LOST-ANCHOR:", e)
        sys.exit(2)
